import sys, re, itertools, copy
sys.path.insert(0,'/tmp/shim'); sys.path.insert(0,'/repo')
import xshim, warnings
warnings.filterwarnings('ignore')
from snaxc.tools.snax_opt_main import SNAXOptMain
from xdsl.parser import Parser
from xdsl.dialects import scf, func, arith, builtin, llvm
from xdsl.traits import is_side_effect_free
from snaxc.dialects import accfg
from snaxc.transforms.convert_linalg_to_accfg import TraceStatesPass
from snaxc.transforms.accfg_dedup import AccfgDeduplicate
from snaxc.transforms.accfg_config_overlap import AccfgConfigOverlapPass

class Stop(Exception): pass
def effects(op):
    a=op.attributes.get('accfg.effects')
    if isinstance(a, accfg.EffectsAttr): return a.data != accfg.EffectsEnum.NONE
    if isinstance(op,(func.CallOp, llvm.CallOp)): return True
    return any(effects(o) for r in op.regions for b in r.blocks for o in b.ops)
def run(fn, oracle, argvals):
    env={}; regs={}; log=[]; oc=[0]
    for i,a in enumerate(fn.body.block.args): env[a]=([3,0,2,1,5,6,7,8][i] if isinstance(a.type,(builtin.IntegerType,builtin.IndexType)) else ('arg',i))
    def nxt():
        v=oracle[oc[0] % len(oracle)]; oc[0]+=1; return v
    def get(v):
        if v not in env: raise Exception('UseBeforeDef '+str(v))
        return env[v]
    def block(b):
        for op in b.ops:
            n=op.name
            if isinstance(op, arith.ConstantOp):
                env[op.result]= op.value.value.data if isinstance(op.value, builtin.IntegerAttr) else ('cst',str(op.value))
            elif isinstance(op, accfg.SetupOp):
                r=regs.setdefault(op.accelerator.data,{})
                for f,v in op.iter_params(): r[f]=get(v)
                env[op.out_state]=None
            elif isinstance(op, accfg.LaunchOp):
                log.append(('launch',op.accelerator.data,tuple(get(v) for v in op.values),dict(regs.get(op.accelerator.data,{}))))
                env[op.token]=None
            elif isinstance(op, accfg.AwaitOp): log.append(('await',))
            elif isinstance(op, accfg.ResetOp): regs[op.get_acc_name()]={}
            elif isinstance(op, scf.ForOp):
                lb,ub,st=get(op.lb),get(op.ub),get(op.step)
                carried=[get(x) for x in op.iter_args]
                i=lb
                assert isinstance(lb,int) and isinstance(ub,int) and isinstance(st,int) and st>0, (lb,ub,st)
                while i<ub:
                    for v in (o.results for o in op.body.block.walk()):
                        for r in v: env.pop(r,None)
                    env[op.body.block.args[0]]=i
                    for a,c in zip(op.body.block.args[1:],carried): env[a]=c
                    block(op.body.block)
                    y=op.body.block.last_op
                    carried=[get(x) for x in y.operands]
                    i+=st
                for r,c in zip(op.results,carried): env[r]=c
            elif isinstance(op, scf.IfOp):
                c=get(op.cond)
                reg=op.true_region if c else op.false_region
                if reg.blocks:
                    block(reg.block)
                    y=reg.block.last_op
                    for r,x in zip(op.results, y.operands): env[r]=get(x)
            elif isinstance(op,(scf.YieldOp, func.ReturnOp)): pass
            elif n in ('arith.addi','arith.muli','arith.subi') and all(isinstance(get(x),int) for x in op.operands):
                a,b=[get(x) for x in op.operands]; env[op.results[0]]={'arith.addi':a+b,'arith.muli':a*b,'arith.subi':a-b}[n]
            elif n=='arith.index_cast': env[op.results[0]]=get(op.operands[0])
            elif effects(op) and not op.regions:
                for k in regs: regs[k]={}
                log.append(('call',n,tuple(get(x) for x in op.operands)))
                for r in op.results: env[r]=('opq',nxt())
            elif is_side_effect_free(op) and not op.regions:
                for k,r in enumerate(op.results): env[r]=(n,k,tuple(get(x) for x in op.operands), str(op.properties)+str(op.attributes) if n.startswith('arith.cmpi') else '')
            elif not op.regions:
                vals=tuple(get(x) for x in op.operands)
                log.append(('op',n,str(sorted(op.attributes.keys())),vals))
                for r in op.results:
                    env[r]= bool(nxt()) if r.type==builtin.i1 else ('opq',nxt(),n)
            else:
                raise Stop('unsupported '+n)
    block(fn.body.block)
    return log
def compare(la, lb):
    if len(la)!=len(lb): return f'len {len(la)} vs {len(lb)}'
    for k,(a,b) in enumerate(zip(la,lb)):
        if a[0]!=b[0]: return f'event {k}: {a[0]} vs {b[0]}'
        if a[0]=='launch':
            if a[1]!=b[1] or a[2]!=b[2]: return f'event {k}: launch vals'
            for f,v in a[3].items():
                if b[3].get(f,'<undef>')!=v: return f'event {k}: launch sees {f}={b[3].get(f,"<undef>")} expected {v}'
        elif a!=b: return f'event {k}: {a} vs {b}'
    return None
def funcs(mod): return {f.sym_name.data:f for f in mod.walk() if isinstance(f, func.FuncOp) and f.body.blocks}
def study(path, split=True):
    text=open(path).read()
    cases=re.split(r'^// -----.*$', text, flags=re.M) if split else [text]
    for k,case in enumerate(cases):
        src='\n'.join(l for l in case.splitlines() if not l.strip().startswith('//'))
        if not src.strip(): continue
        m = SNAXOptMain(args=['/tmp/probe/d1.mlir']); ctx=m.ctx; ctx.allow_unregistered=True
        try:
            P0=Parser(ctx, src).parse_module(); TraceStatesPass().apply(ctx,P0)
            P1=P0.clone(); AccfgDeduplicate().apply(ctx,P1); P1.verify()
            P2=P1.clone(); AccfgConfigOverlapPass().apply(ctx,P2); P2.verify()
        except Exception as e:
            print(path.split('/')[-1],k,'PASS-ERROR',type(e).__name__,str(e)[:100]); continue
        f0,f1,f2=funcs(P0),funcs(P1),funcs(P2)
        for name in f0:
            res=[]
            for orc in itertools.product([0,1],repeat=3):
                for tag,(a,b) in {'dedup':(f0,f1),'overlap':(f1,f2)}.items():
                    try:
                        la=run(a[name],orc,{}); lb=run(b[name],orc,{})
                        d=compare(la,lb)
                        if d: res.append((tag,orc,d))
                    except Stop as e: res.append(('skip',str(e))); break
                    except Exception as e: res.append((tag,orc,'EXC '+str(e)[:80]))
            uniq=sorted(set((r[0],r[-1]) for r in res))
            print(path.split('/')[-1],k,name,'OK' if not uniq else uniq[:3])
for p in ['acc-dedup.mlir','accfg-config-overlap.mlir','accfg-trace-states.mlir']:
    study('/repo/tests/filecheck/transforms/'+p, split=(p!='acc-dedup.mlir'))
