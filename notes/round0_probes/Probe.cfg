SPECIFICATION Spec
INVARIANT Equiv
INVARIANT PrefixOK
CHECK_DEADLOCK FALSE
