import sys
import xshim
from snaxc.tools.snax_opt_main import SNAXOptMain
SNAXOptMain(args=sys.argv[1:]).run()
