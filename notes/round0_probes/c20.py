import sys, itertools
sys.path.insert(0,'/tmp/shim'); sys.path.insert(0,'/repo')
import xshim
from snaxc.tools.snax_opt_main import SNAXOptMain
from xdsl.parser import Parser
from xdsl.dialects import linalg, arith
from xdsl.pattern_rewriter import PatternRewriter
from xdsl.ir import BlockArgument
from snaxc.dialects import phs
from snaxc.phs.encode import convert_generic_body_to_phs
from snaxc.phs.combine import append_to_abstract_graph
from snaxc.phs.decode import decode_abstract_graph

ctx = SNAXOptMain(args=['/tmp/probe/d1.mlir']).ctx
def kernel(body_lines, nin=2):
    ins = ', '.join(f'%I{i}' for i in range(nin)); tys=', '.join(['memref<8xi32>']*nin)
    maps = ', '.join(['affine_map<(d0) -> (d0)>']*(nin+1))
    args = ', '.join(f'%a{i} : i32' for i in range(nin)) + ', %o : i32'
    fargs = ', '.join(f'%I{i} : memref<8xi32>' for i in range(nin))
    src=f'''func.func @f({fargs}, %O : memref<8xi32>) {{
  linalg.generic {{indexing_maps = [{maps}], iterator_types = ["parallel"]}} ins({ins} : {tys}) outs(%O : memref<8xi32>) {{
  ^bb0({args}):
    {chr(10).join(body_lines)}
  }}
  func.return
}}'''
    mod = Parser(ctx, src).parse_module()
    g=[o for o in mod.walk() if isinstance(o, linalg.GenericOp)][0]
    return g, mod
OPS={'arith.addi':lambda a,b:a+b,'arith.muli':lambda a,b:a*b,'arith.subi':lambda a,b:a-b}
def eval_generic(g, data):
    env={a:d for a,d in zip(g.body.block.args, data)}
    for op in g.body.block.ops:
        if isinstance(op, linalg.YieldOp): return env[op.operands[0]]
        env[op.results[0]]=OPS[op.name](*[env[x] for x in op.operands])
def real_switch_list(pe):
    out=[]
    for sw in pe.get_switches():
        u=sw.get_user_of_unique_use()
        if isinstance(u, phs.MuxOp) or (isinstance(u, phs.ChooseOp) and len(list(u.operations()))>1): out.append(sw)
    return out
def eval_pe(pe, decoded, data):
    rs=real_switch_list(pe); assert len(rs)==len(decoded), (len(rs), len(decoded))
    sv={sw:0 for sw in pe.get_switches()}; sv.update(dict(zip(rs,decoded)))
    env={a:d for a,d in zip(pe.data_operands(), data)}
    env.update(sv)
    # evaluate lazily (graph may be out of order)
    def val(v, depth=0):
        if depth>50: raise Exception('cycle')
        if v in env: return env[v]
        op=v.owner
        if isinstance(op, phs.MuxOp):
            r = val(op.rhs,depth+1) if val(op.switch)==1 else val(op.lhs,depth+1)
        elif isinstance(op, phs.ChooseOp):
            alt=list(op.operations())[val(op.switch)]
            r = OPS[alt.name](*[val(x,depth+1) for x in op.data_operands])
        env[v]=r; return r
    return val(pe.get_terminator().operands[0])
def history(kernels):
    gens=[kernel(*k) for k in kernels]
    pes=[convert_generic_body_to_phs(g, 'acc', PatternRewriter(g)) for g,_ in gens]
    abstract = convert_generic_body_to_phs(gens[0][0], 'acc', PatternRewriter(gens[0][0]))
    for j in range(1,len(pes)+1):
        if j>1:
            append_to_abstract_graph(convert_generic_body_to_phs(gens[j-1][0],'acc',PatternRewriter(gens[j-1][0])), abstract)
        try: abstract.verify()
        except Exception as e: print('  verify fails after merge',j, str(e).splitlines()[0][:100])
        for i in range(j):
            try:
                dec=list(decode_abstract_graph(abstract, pes[i]))
            except Exception as e:
                print('  decode fails k',i,'after',j,type(e).__name__, str(e)[:80]); continue
            nin=len(list(pes[i].data_operands()))
            bad=[d for d in itertools.product([-2,-1,0,1,2,3],repeat=nin) if eval_pe(abstract,dec,d)!=eval_generic(gens[i][0],d)]
            print('  after',j,'kernel',i,'decoded',dec,'true_sw',abstract.get_true_switches(),'OK' if not bad else f'MISMATCH {bad[:2]}')
K1=(['%t = arith.addi %a0, %a1 : i32','%u = arith.muli %t, %a1 : i32','linalg.yield %u : i32'],)
K2=(['%t = arith.muli %a0, %a1 : i32','%u = arith.addi %t, %a0 : i32','linalg.yield %u : i32'],)
K3=(['%t = arith.subi %a1, %a0 : i32','linalg.yield %t : i32'],)
K4=(['%t = arith.subi %a0, %a1 : i32','%u = arith.subi %a1, %t : i32','linalg.yield %u : i32'],)
print('H1'); history([K1,K2,K3])
print('H2'); history([K3,K4,K1,K2])
print('H3'); history([K2,K1,K4,K3])
