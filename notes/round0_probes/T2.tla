---- MODULE T2 ----
EXTENDS Integers, Sequences, TLC, Json, IOUtils, Bitwise
J == JsonDeserialize(IOEnv.JF)
ASSUME PrintT(J)
ASSUME PrintT("a" \o "_bound_" \o ToString(3))
ASSUME PrintT(J.neg + 1)
ASSUME PrintT(J.mat[2][1])
ASSUME PrintT(5 | 2)
ASSUME PrintT((-7) \div 2)
ASSUME PrintT((-7) % 2)
ASSUME PrintT(J.big)
VARIABLE x
Init == x = 0
Next == x' = x
====
