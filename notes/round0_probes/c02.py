import sys, itertools, numpy as np
sys.path.insert(0,'/tmp/shim'); sys.path.insert(0,'/repo')
import xshim
from snaxc.tools.snax_opt_main import SNAXOptMain
from xdsl.parser import Parser
from xdsl.passes import PassPipeline
from snaxc.dialects import dart, snax_stream
from snaxc.ir.dart.affine_transform import AffineTransform

def gemm(M,N,K, layouts=("","","")):
    la,lb,lc = layouts
    return f'''
func.func public @mm(%a : memref<{M}x{K}xi8{la}>, %b : memref<{K}x{N}xi8{lb}>, %c : memref<{M}x{N}xi32{lc}>) {{
  "dart.operation"(%a, %b, %c) <{{patterns = [affine_map<(m,n,k) -> (m,k)>, affine_map<(m,n,k) -> (k,n)>, affine_map<(m,n,k) -> (m,n)>], accelerator = "snax_gemmx", operandSegmentSizes = array<i32: 2, 1>}}> ({{
  ^bb0(%0 : !dart.stream<i8>, %1 : !dart.stream<i8>, %2 : !dart.stream<i32>):
    %3 = "dart.generic"(%0, %1) <{{library_call = "snax_gemmx"}}> ({{
    ^bb1(%x : i8, %y : i8, %z : i32):
      %4 = kernel.mac %x, %y : i8, i8 -> i32
      dart.yield %4 : i32
    }}) : (!dart.stream<i8>, !dart.stream<i8>) -> !dart.stream<i32>
    dart.yield %3 : !dart.stream<i32>
  }}) : (memref<{M}x{K}xi8{la}>, memref<{K}x{N}xi8{lb}>, memref<{M}x{N}xi32{lc}>) -> ()
  func.return
}}'''
def run(src, passes):
    m = SNAXOptMain(args=['/tmp/probe/d1.mlir'])
    ctx = m.ctx
    mod = Parser(ctx, src).parse_module()
    PassPipeline.parse_spec(m.available_passes, ','.join(passes)).apply(ctx, mod); mod.verify()
    return ctx, mod
def find(mod, cls):
    return [o for o in mod.walk() if isinstance(o, cls)]

def check(src, setlayout=False):
    pre = ['insert-accfg-op{accelerator=snax_gemmx}','dart-scheduler'] + (['set-memory-layout'] if setlayout else [])
    ctx, mod = run(src, pre)
    sch = find(mod, dart.ScheduleOp)[0]
    bounds = [b.value.data for b in sch.bounds.data]
    pats = [AffineTransform.from_affine_map(p.data) for p in sch.patterns.data]
    types = [o.type for o in sch.operands]
    acc = ctx.get_acc('snax_gemmx'); tmpl = acc.get_template(sch); T = tmpl.num_dims
    from snaxc.transforms.dart.dart_layout_resolution import DartLayoutResolutionPass
    from snaxc.transforms.convert_dart_to_snax_stream import ConvertDartToSnaxStream
    DartLayoutResolutionPass().apply(ctx, mod); ConvertDartToSnaxStream().apply(ctx, mod)
    sr = find(mod, snax_stream.StreamingRegionOp)[0]
    print('bounds', bounds, 'T', T)
    sps = sr.stride_patterns.data
    print([str(s) for s in sps])
    # operand i of schedule -> which streamer? for 3-pattern i32: A=0,B=1,D32=4
    mapping = {0:0, 1:1, 2:4}
    ok=True
    for o,(pat,ty) in enumerate(zip(pats,types)):
        w = ty.element_type.size
        lay = ty.get_affine_map_in_bytes()
        sp = sps[mapping[o]]
        ub=[x.data for x in sp.upper_bounds]; ts=[x.data for x in sp.temporal_strides]; ss=[x.data for x in sp.spatial_strides]
        spat = acc.streamer_config.data.streamers[mapping[o]].spatial_dims
        tb = bounds[:-T]; sb = bounds[-T:]
        rel = tmpl[o].pattern.A.any(axis=0).tolist()
        steps_sched = list(itertools.product(*[range(b) for b in tb]))
        steps_str = list(itertools.product(*[range(b) for b in reversed(ub)]))  # outermost first
        if len(steps_sched)!=len(steps_str): print('operand',o,'STEP COUNT MISMATCH',len(steps_sched),len(steps_str)); ok=False; continue
        for t, c in zip(steps_sched, steps_str):
            eb=set()
            for s in itertools.product(*[range(b) if r else range(1) for b,r in zip(sb,rel)]):
                idx = pat.eval(np.array(list(t)+list(s)))
                a = lay.eval(list(int(x) for x in idx), [])[0]
                eb |= set(range(a, a+w))
            cc = list(reversed(c))
            base = sum(i*s_ for i,s_ in zip(cc,ts))
            wb=set()
            for p in itertools.product(*[range(n) for n in spat]):
                a = base + sum(i*s_ for i,s_ in zip(p,ss))
                wb |= set(range(a,a+8))
            if eb!=wb:
                print('operand',o,'step',t,'MISMATCH', sorted(eb)[:10], sorted(wb)[:10]); ok=False; break
    print('OK' if ok else 'FAIL')
def safe(*a, **k):
    try: check(*a, **k)
    except Exception as e: print('REFUSED', type(e).__name__, str(e)[:80])
check=safe.__wrapped__ if hasattr(safe,'__wrapped__') else check
_check=check
def check(*a, **k):
    try: _check(*a, **k)
    except Exception as e: print('REFUSED', type(e).__name__, str(e).strip().splitlines()[-1][:80] if str(e).strip() else '')
check(gemm(16,16,16))
check(gemm(16,16,16), setlayout=True)
check(gemm(16,24,32), setlayout=True)
check(gemm(16,16,16, (", strided<[16,1], offset: 0>","","")))
check(gemm(16,16,16, (", strided<[16,1], offset: 64>","","")))
