import sys, re
sys.path.insert(0,'/tmp/shim'); sys.path.insert(0,'/repo')
import xshim
from snaxc.tools.snax_opt_main import SNAXOptMain
from xdsl.parser import Parser
from xdsl.dialects import scf, func, memref, arith, builtin
from xdsl.dialects.linalg import GenericOp
from snaxc.dialects import snax, dart
from snaxc.transforms.insert_sync_barrier import InsertSyncBarrier

def root(v):
    while True:
        o=v.owner
        if isinstance(o, (memref.SubviewOp, memref.MemorySpaceCastOp, snax.LayoutCast, memref.CastOp)): v=o.operands[0]
        else: return v
def trace(block, env, out, trips=2):
    for op in block.ops:
        if isinstance(op, scf.ForOp):
            for _ in range(trips): trace(op.body.block, env, out, trips)
        elif isinstance(op, scf.IfOp):
            for r in op.regions:
                if r.blocks: trace(r.block, env, out, trips)
        elif isinstance(op, snax.ClusterSyncOp): out.append(('bar',))
        elif isinstance(op, memref.CopyOp): out.append(('dm', {root(op.source)}, {root(op.destination)}, op))
        elif isinstance(op, GenericOp) or isinstance(op, dart.StreamingRegionOpBase):
            out.append(('cmp', {root(x) for x in op.inputs}, {root(x) for x in op.outputs}, op))
        elif isinstance(op, memref.DeallocOp): out.append(('all', set(), {root(op.operands[0])}, op))
        elif isinstance(op, (memref.SubviewOp, memref.DimOp, memref.AllocOp, arith.ConstantOp, func.ReturnOp, scf.YieldOp, memref.MemorySpaceCastOp)) : pass
        else:
            bufs={root(x) for x in op.operands if isinstance(x.type, builtin.MemRefType)}
            if bufs: out.append(('all', bufs, set(), op))
def check(tr):
    viol=[]
    for i,a in enumerate(tr):
        if a[0] not in ('dm','cmp'): continue
        for j in range(i+1,len(tr)):
            b=tr[j]
            if b[0]=='bar': break
            if b[0]==a[0]: continue   # same single core
            # conflict: a writes & b reads/writes, or a reads & b writes
            if (a[2] & (b[1]|b[2])) or (a[1] & b[2]):
                viol.append((i,j,a[0],b[0],a[3].name,b[3].name))
    return viol
def run(src, label):
    m = SNAXOptMain(args=['/tmp/probe/d1.mlir']); ctx=m.ctx; ctx.allow_unregistered=True
    mod = Parser(ctx, src).parse_module()
    InsertSyncBarrier().apply(ctx, mod)
    for f in mod.walk():
        if isinstance(f, func.FuncOp) and f.body.blocks:
            tr=[]; trace(f.body.block, {}, tr); print(label, f.sym_name.data, 'events',len(tr),'violations',check(tr)[:3])
    if not any(isinstance(f, func.FuncOp) for f in mod.ops):
        tr=[]; trace(mod.body.block, {}, tr); print(label,'<module>','events',len(tr),'violations',check(tr)[:3])
text=open('/repo/tests/filecheck/transforms/insert-sync-barrier.mlir').read()
for k,case in enumerate(re.split(r'^// -----.*$', text, flags=re.M)):
    src='\n'.join(l for l in case.splitlines() if not l.strip().startswith('//'))
    if src.strip(): run(src, f'case{k}')
run(open('/tmp/probe/c13.mlir').read(), 'D5')
