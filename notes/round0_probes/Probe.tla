---- MODULE Probe ----
EXTENDS Integers, Sequences, FiniteSets, TLC, Json, IOUtils

Batch == JsonDeserialize(IOEnv.BATCH)
Progs == Batch.progs
NP == Len(Progs)

VARIABLES tid, side, inp, pc, env, stack, regs, obs, obsA, done

vars == <<tid, side, inp, pc, env, stack, regs, obs, obsA, done>>

Ops(t, s) == IF s = 0 THEN Progs[t].pre ELSE Progs[t].post
NV == 40
Fields == {"A","B","C"}
Dom == 0..2

Init ==
  /\ tid \in 1..NP
  /\ side = 0
  /\ inp \in [1..Progs[tid].nargs -> Dom]
  /\ pc = 1
  /\ env = [i \in 1..NV |-> 0]
  /\ stack = <<>>
  /\ regs = [f \in Fields |-> -1]
  /\ obs = <<>>
  /\ obsA = <<>>
  /\ done = FALSE

Op == Ops(tid, side)[pc]

Step ==
  /\ ~done
  /\ pc <= Len(Ops(tid, side))
  /\ LET o == Op IN
     CASE o.k = "arg" ->
            /\ env' = [env EXCEPT ![o.r] = inp[o.n]]
            /\ pc' = pc + 1 /\ UNCHANGED <<stack, regs, obs>>
       [] o.k = "const" ->
            /\ env' = [env EXCEPT ![o.r] = o.v]
            /\ pc' = pc + 1 /\ UNCHANGED <<stack, regs, obs>>
       [] o.k = "addi" ->
            /\ env' = [env EXCEPT ![o.r] = env[o.a] + env[o.b]]
            /\ pc' = pc + 1 /\ UNCHANGED <<stack, regs, obs>>
       [] o.k = "for" ->
            IF env[o.lb] < env[o.ub]
            THEN /\ env' = [env EXCEPT ![o.iv] = env[o.lb]]
                 /\ stack' = Append(stack, [head |-> pc, ub |-> env[o.ub], st |-> env[o.st]])
                 /\ pc' = pc + 1 /\ UNCHANGED <<regs, obs>>
            ELSE /\ pc' = o.end + 1 /\ UNCHANGED <<env, stack, regs, obs>>
       [] o.k = "endfor" ->
            LET fr == stack[Len(stack)]
                h == Ops(tid, side)[fr.head]
                nxt == env[h.iv] + fr.st IN
            IF nxt < fr.ub
            THEN /\ env' = [env EXCEPT ![h.iv] = nxt]
                 /\ pc' = fr.head + 1 /\ UNCHANGED <<stack, regs, obs>>
            ELSE /\ stack' = SubSeq(stack, 1, Len(stack)-1)
                 /\ pc' = pc + 1 /\ UNCHANGED <<env, regs, obs>>
       [] o.k = "setup" ->
            /\ regs' = [f \in Fields |-> IF f \in DOMAIN o.f THEN env[o.f[f]] ELSE regs[f]]
            /\ pc' = pc + 1 /\ UNCHANGED <<env, stack, obs>>
       [] o.k = "launch" ->
            /\ obs' = Append(obs, regs)
            /\ pc' = pc + 1 /\ UNCHANGED <<env, stack, regs>>
  /\ UNCHANGED <<tid, side, inp, obsA, done>>

Switch ==
  /\ ~done
  /\ pc > Len(Ops(tid, side))
  /\ IF side = 0
     THEN /\ side' = 1 /\ obsA' = obs /\ obs' = <<>> /\ pc' = 1
          /\ env' = [i \in 1..NV |-> 0] /\ stack' = <<>> /\ regs' = [f \in Fields |-> -1]
          /\ UNCHANGED <<tid, inp, done>>
     ELSE /\ done' = TRUE /\ UNCHANGED <<tid, side, inp, pc, env, stack, regs, obs, obsA>>

Next == Step \/ Switch
Spec == Init /\ [][Next]_vars

Equiv == done => obs = obsA
PrefixOK == side = 1 => (Len(obs) <= Len(obsA) /\ \A i \in 1..Len(obs): obs[i] = obsA[i])
====
