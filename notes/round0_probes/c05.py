import sys, itertools, numpy as np
sys.path.insert(0,'/tmp/shim'); sys.path.insert(0,'/repo')
import xshim
from snaxc.tools.snax_opt_main import SNAXOptMain
from xdsl.parser import Parser
from xdsl.dialects import arith, scf, func, memref, builtin
from snaxc.transforms.snax_copy_to_dma import SNAXCopyToDMA
from snaxc.dialects.tsl import TiledStridedLayoutAttr

def layout_addr(ty, idx):
    """element address (in elements) of logical index under memref type ty"""
    lay = ty.layout
    if isinstance(lay, TiledStridedLayoutAttr):
        t = lay.data; a = t.offset or 0
        for d, ts in enumerate(t.tstrides):
            i = idx[d]
            bounds=[s.bound for s in ts.strides]
            # mixed radix, innermost last
            digits=[]
            for b in reversed(bounds[1:]):
                digits.insert(0, i % b); i//=b
            digits.insert(0,i)
            a += sum(dg*s.step for dg,s in zip(digits, ts.strides))
        return a
    elif isinstance(lay, builtin.StridedLayoutAttr):
        return (lay.offset.data if not isinstance(lay.offset, builtin.NoneAttr) else 0) + sum(i*s.data for i,s in zip(idx, lay.strides.data))
    else:
        shape=ty.get_shape(); a=0
        for i,n in zip(idx,shape): a=a*n+i
        return a

def interp(fn, SRC=0, DST=10000):
    args = fn.body.block.args
    env = {args[0]: ('m',SRC,args[0].type), args[1]: ('m',DST,args[1].type)}
    w = args[0].type.element_type.size
    mem = {}
    for idx in itertools.product(*[range(n) for n in args[0].type.get_shape()]):
        for k in range(w): mem[SRC + layout_addr(args[0].type, idx)*w + k] = (idx,k)
    rd=set(); wr=set()
    def run(block):
        for op in block.ops:
            if isinstance(op, arith.ConstantOp): env[op.result]=op.value.value.data
            elif isinstance(op, arith.MuliOp): env[op.result]=env[op.lhs]*env[op.rhs]
            elif isinstance(op, arith.AddiOp): env[op.result]=env[op.lhs]+env[op.rhs]
            elif isinstance(op, arith.DivUIOp): env[op.result]=env[op.lhs]//env[op.rhs]
            elif isinstance(op, memref.DimOp): env[op.result]=env[op.source][2].get_shape()[env[op.index]]
            elif isinstance(op, memref.ExtractAlignedPointerAsIndexOp): env[op.results[0]]=env[op.source][1]
            elif isinstance(op, memref.ExtractStridedMetaDataOp): pass
            elif isinstance(op, scf.ForOp):
                for i in range(env[op.lb], env[op.ub], env[op.step]):
                    env[op.body.block.args[0]]=i; run(op.body.block)
            elif isinstance(op, scf.YieldOp) or isinstance(op, func.ReturnOp): pass
            elif isinstance(op, func.CallOp):
                a=[env[x] for x in op.arguments]
                if op.callee.root_reference.data=='snax_dma_1d_transfer':
                    s,d,n=a; reps=[(s,d)]
                else:
                    s,d,n,ss,ds,r=a; reps=[(s+i*ss,d+i*ds) for i in range(r)]
                for s_,d_ in reps:
                    for k in range(n):
                        rd.add(s_+k); wr.add(d_+k); mem[d_+k]=mem.get(s_+k,'junk')
            else: raise Exception('unknown '+op.name)
    run(fn.body.block)
    dty=args[1].type; ok=True
    for idx in itertools.product(*[range(n) for n in dty.get_shape()]):
        for k in range(w):
            if mem.get(DST+layout_addr(dty,idx)*w+k)!=(idx,k): ok=False
    srcfp={SRC+layout_addr(args[0].type,i)*w+k for i in itertools.product(*[range(n) for n in args[0].type.get_shape()]) for k in range(w)}
    dstfp={DST+layout_addr(dty,i)*w+k for i in itertools.product(*[range(n) for n in dty.get_shape()]) for k in range(w)}
    return ok, rd<=srcfp, wr<=dstfp

def case(sty, dty):
    src=f'''func.func @f(%a : {sty}, %b : {dty}) {{
  "memref.copy"(%a, %b) : ({sty}, {dty}) -> ()
  func.return
}}'''
    m = SNAXOptMain(args=['/tmp/probe/d1.mlir']); ctx=m.ctx
    mod = Parser(ctx, src).parse_module()
    try:
        SNAXCopyToDMA().apply(ctx, mod); mod.verify()
    except Exception as e:
        print('REFUSED', sty, dty, type(e).__name__, str(e)[:60]); return
    fn=[o for o in mod.ops if isinstance(o, func.FuncOp) and o.body.blocks][0]
    ncalls=sum(1 for o in fn.walk() if isinstance(o, func.CallOp))
    print(interp(fn), ncalls, sty, '->', dty)
case('memref<8x8xi32>', 'memref<8x8xi32>')
case('memref<8x8xi32>', 'memref<8x8xi32, #tsl.tsl<[2, 4] -> (32, 4), [2, 4] -> (16, 1)>>')
case('memref<8x8xi32, #tsl.tsl<[2, 4] -> (32, 4), [2, 4] -> (16, 1)>>', 'memref<8x8xi32>')
case('memref<8x8xi8, #tsl.tsl<[2, 4] -> (4, 1), [2, 4] -> (32, 8)>>', 'memref<8x8xi8, #tsl.tsl<[2, 4] -> (32, 4), [2, 4] -> (16, 1)>>')
case('memref<4x4xi8, strided<[8, 1], offset: 3>>', 'memref<4x4xi8>')
case('memref<4x4xi8, strided<[1, 4]>>', 'memref<4x4xi8>')
case('memref<4x4xi8, #tsl.tsl<[4] -> (4), [4] -> (1), offset: 5>>', 'memref<4x4xi8>')
case('memref<4x4xi8>', 'memref<4x4xi8, #tsl.tsl<[4] -> (4), [4] -> (1), offset: 5>>')
case('memref<2x2x2xi8, #tsl.tsl<[2] -> (1), [2] -> (2), [2] -> (4)>>', 'memref<2x2x2xi8>')
case('memref<4x4xi8, #tsl.tsl<[4] -> (8), [4] -> (2)>>', 'memref<4x4xi8, #tsl.tsl<[4] -> (2), [4] -> (8)>>')
