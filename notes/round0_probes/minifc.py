import re, sys, subprocess, shlex, os, glob
def split_cases(text):
    return re.split(r'^// -----.*$', text, flags=re.M)
def checks(text, prefix="CHECK"):
    out=[]
    for line in text.splitlines():
        m=re.match(r'\s*//\s*(%s(?:-NEXT|-SAME|-NOT|-LABEL|-DAG|-EMPTY)?):\s?(.*)$'%prefix, line)
        if m: out.append((m.group(1), m.group(2).strip()))
    return out
def to_re(pat):
    # filecheck pattern: {{regex}} and [[VAR:regex]] / [[VAR]]
    parts=re.split(r'(\{\{.*?\}\}|\[\[.*?\]\])', pat)
    r=''
    for p in parts:
        if p.startswith('{{'): r+='(?:'+p[2:-2]+')'
        elif p.startswith('[['):
            body=p[2:-2]
            r+= '(?:'+body.split(':',1)[1]+')' if ':' in body else r'\S+'
        else: r+=re.sub(r'\\\s+', r'\\s+', re.escape(p.strip())).replace(r'\ ', r'\s+')
    return re.compile(r)
def run(f):
    text=open(f).read()
    res=[]
    for line in text.splitlines():
        m=re.match(r'//\s*RUN:\s*(.*)$', line)
        if not m: continue
        cmd=m.group(1)
        if not cmd.startswith('snax-opt') or 'mlir-opt' in cmd or 'circt' in cmd: res.append(('skip',cmd)); continue
        optpart, _, fcpart = cmd.partition('| filecheck')
        if 'XDSL' in cmd: continue
        prefix="CHECK"
        m2=re.search(r'--check-prefix[= ](\S+)', fcpart)
        if m2: prefix=m2.group(1)
        args=shlex.split(optpart.replace('%s', f))[1:]
        p=subprocess.run(['/venv/bin/python','/tmp/shim/runopt.py']+args,capture_output=True,text=True,env={**os.environ,'PYTHONPATH':'/tmp/shim:/repo'})
        if p.returncode!=0 and '--verify-diagnostics' not in cmd:
            res.append(('crash',cmd, p.stderr.strip().splitlines()[-1][:150] if p.stderr.strip() else '')); continue
        out_cases = re.split(r'^// -----.*$', p.stdout, flags=re.M) if '--split-input-file' in cmd else [p.stdout]
        in_cases = split_cases(text) if '--split-input-file' in cmd else [text]
        nfail=0; ntot=0; first=None
        for ic, oc in zip(in_cases, out_cases):
            lines=oc.splitlines(); pos=0
            for kind, pat in checks(ic, prefix):
                if kind.endswith('NOT') or kind.endswith('EMPTY') or kind.endswith('SAME') : continue
                ntot+=1
                rx=to_re(pat)
                if kind.endswith('NEXT'):
                    if pos < len(lines) and rx.search(lines[pos]): pos+=1
                    else:
                        nfail+=1
                        if first is None: first=(pat, lines[pos] if pos<len(lines) else '<eof>')
                        # resync
                        for j in range(pos,len(lines)):
                            if rx.search(lines[j]): pos=j+1; break
                else:
                    for j in range(pos,len(lines)):
                        if rx.search(lines[j]): pos=j+1; break
                    else:
                        nfail+=1
                        if first is None: first=(pat,'<not found>')
        res.append(('ok' if nfail==0 else 'MISMATCH', os.path.basename(f), prefix, f'{ntot-nfail}/{ntot}', first))
    return res
for f in sorted(glob.glob('/repo/tests/filecheck/transforms/**/*.mlir', recursive=True)):
    for r in run(f): 
        if r[0]!='skip': print(r)
