---- MODULE Sim ----
EXTENDS Integers, Sequences, TLC
VARIABLES bounds, hist
Init == bounds = <<4, 8>> /\ hist = <<>>
Rotate(k) == /\ k \in 2..Len(bounds)
             /\ bounds' = SubSeq(bounds, 2, k) \o <<bounds[1]>> \o SubSeq(bounds, k+1, Len(bounds))
             /\ hist' = Append(hist, <<"rotate", k>>)
Tile(d, t) == /\ d \in 1..Len(bounds) /\ bounds[d] % t = 0 /\ bounds[d] > t /\ Len(bounds) < 4
              /\ bounds' = SubSeq(bounds, 1, d-1) \o <<bounds[d] \div t, t>> \o SubSeq(bounds, d+1, Len(bounds))
              /\ hist' = Append(hist, <<"tile", d, t>>)
Next == (\E k \in 2..4: Rotate(k)) \/ (\E d \in 1..4, t \in {2,4}: Tile(d, t))
Spec == Init /\ [][Next]_<<bounds, hist>>
====
