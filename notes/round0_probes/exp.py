import sys, json
sys.path.insert(0,'/tmp/shim'); sys.path.insert(0,'/repo')
import xshim
from snaxc.tools.snax_opt_main import SNAXOptMain
from xdsl.parser import Parser
from xdsl.traits import is_side_effect_free
from xdsl.ir import Block, Operation, BlockArgument
from xdsl.dialects import builtin, arith
from snaxc.dialects import accfg
from snaxc.transforms.convert_linalg_to_accfg import TraceStatesPass
from snaxc.transforms.accfg_dedup import AccfgDeduplicate
from snaxc.inference.trace_acc_state import infer_state_of

m = SNAXOptMain(args=['/tmp/probe/d1.mlir'])
ctx = m.ctx
mod = Parser(ctx, open('/tmp/probe/d1.mlir').read()).parse_module()
TraceStatesPass().apply(ctx, mod)
mod.verify()

def export(mod):
    ids = {}
    def vid(v):
        if v not in ids: ids[v] = len(ids)+1
        return ids[v]
    ops = []
    def walk_block(block, parent):
        for op in block.ops:
            i = len(ops)
            rec = {"i": i+1, "name": op.name, "r": [vid(r) for r in op.results], "a": [vid(o) for o in op.operands],
                   "pure": bool(is_side_effect_free(op)), "parent": parent, "regions": []}
            if isinstance(op, arith.ConstantOp) and isinstance(op.value, builtin.IntegerAttr):
                rec["v"] = op.value.value.data
            if isinstance(op, accfg.SetupOp):
                rec["fields"] = [p.data for p in op.param_names]; rec["acc"] = op.accelerator.data
                rec["in_state"] = vid(op.in_state) if op.in_state else 0
            ops.append(rec)
            for region in op.regions:
                for b in region.blocks:
                    start = len(ops)+1
                    bargs = [vid(a) for a in b.args]
                    walk_block(b, i+1)
                    rec["regions"].append({"begin": start, "end": len(ops), "bargs": bargs})
    for f in mod.ops:
        args = [vid(a) for a in f.regions[0].blocks[0].args] if f.regions and f.regions[0].blocks else []
        walk_block(f.regions[0].blocks[0], 0)
    return ops, ids
ops, ids = export(mod)
print(json.dumps(ops[:12], indent=None)[:1500])
claims = {}
for v, i in ids.items():
    if isinstance(v.type, accfg.StateType):
        claims[i] = {k: ids[x] for k, x in infer_state_of(v).items()}
print(claims)
