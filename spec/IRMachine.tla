----------------------------- MODULE IRMachine -----------------------------
(***************************************************************************)
(* The sequential core of the SNAX abstract machine: a small-step SSA      *)
(* interpreter for function images exported (syntactically) from xDSL IR.  *)
(*                                                                         *)
(* A program image P is a record                                           *)
(*   [ops : Seq(Op), nv : Nat, args : Seq(Id), ty : Seq(STRING), ...]      *)
(* with Op = [k, n, r, a, iv, sv, end, mid, ba, w, fx, pure] (see          *)
(* harness/export_ir.py).  A machine is a record (so that Cluster.tla can  *)
(* index machines by core and pair checks can run two of them); MStep is   *)
(* the transition function of one machine, one operation per step.         *)
(*                                                                         *)
(* All run-time values are integers.  Results of pure operations the       *)
(* machine does not interpret are uninterpreted-function applications,     *)
(* interned into integers >= UFBase through the table m.uf, which a pair   *)
(* of machines shares.                                                     *)
(***************************************************************************)
EXTENDS Integers, Sequences, FiniteSets, TLC, Bitwise, Accfg, Csr, Memory

Range(s) == {s[i] : i \in DOMAIN s}
UFBase == 1000000
Abs(x) == IF x < 0 THEN -x ELSE x
Min2(x, y) == IF x < y THEN x ELSE y
Max2(x, y) == IF x > y THEN x ELSE y

(* fixed-width two's complement; w = 0 (index) and wide types are left exact *)
Narrow(w) == w > 0 /\ w <= 24
Wrap(v, w) == IF ~Narrow(w) THEN v ELSE LET mm == 2^w  hh == 2^(w-1) IN ((v + hh) % mm) - hh
Unsigned(v, w) == IF ~Narrow(w) THEN v ELSE v % (2^w)

TDiv(x, y) == LET q == Abs(x) \div Abs(y) IN IF (x < 0) # (y < 0) THEN -q ELSE q
TRem(x, y) == x - y * TDiv(x, y)
CeilDiv(x, y) == -((-x) \div y)

BinNeedsNonZero(n) == n \in {"arith.divsi", "arith.divui", "arith.remsi", "arith.remui",
                            "arith.floordivsi", "arith.ceildivsi", "arith.ceildivui"}
BinIsBitwise(n) == n \in {"arith.andi", "arith.ori", "arith.xori", "arith.shrui"}

BinOp(n, x, y, w) ==
  LET ux == Unsigned(x, w)  uy == Unsigned(y, w) IN
  CASE n = "arith.addi" -> x + y
    [] n = "arith.subi" -> x - y
    [] n = "arith.muli" -> x * y
    [] n = "arith.divsi" -> TDiv(x, y)
    [] n = "arith.remsi" -> TRem(x, y)
    [] n = "arith.divui" -> ux \div uy
    [] n = "arith.remui" -> ux % uy
    [] n = "arith.floordivsi" -> x \div y
    [] n = "arith.ceildivsi" -> CeilDiv(x, y)
    [] n = "arith.ceildivui" -> CeilDiv(ux, uy)
    [] n = "arith.minsi" -> Min2(x, y)
    [] n = "arith.maxsi" -> Max2(x, y)
    [] n = "arith.minui" -> Min2(ux, uy)
    [] n = "arith.maxui" -> Max2(ux, uy)
    [] n = "arith.andi" -> ux & uy
    [] n = "arith.ori" -> ux | uy
    [] n = "arith.xori" -> ux ^^ uy
    [] n = "arith.shli" -> x * (2^y)
    [] n = "arith.shrui" -> ux \div (2^uy)
    [] n = "arith.shrsi" -> x \div (2^y)
    [] OTHER -> 0

CmpOp(p, x, y, w) ==
  LET ux == Unsigned(x, w)  uy == Unsigned(y, w)
      b == CASE p = 0 -> x = y [] p = 1 -> x # y [] p = 2 -> x < y [] p = 3 -> x <= y
             [] p = 4 -> x > y [] p = 5 -> x >= y [] p = 6 -> ux < uy [] p = 7 -> ux <= uy
             [] p = 8 -> ux > uy [] p = 9 -> ux >= uy [] OTHER -> FALSE
  IN IF b THEN 1 ELSE 0

(***************************************************************************)
(* Machine construction                                                    *)
(***************************************************************************)
ArgVals(P, orc) == [i \in DOMAIN P.args |-> orc.args[i]]

AssignEnv(env, ids, vals) ==
  [i \in DOMAIN env |->
     IF \E k \in DOMAIN ids : ids[k] = i
     THEN vals[CHOOSE k \in DOMAIN ids : ids[k] = i] ELSE env[i]]

(* cur[acc]: the state-typed id most recently defined for acc (0 = none) *)
CurAfter(P, cur, ids) ==
  [a \in DOMAIN cur |->
     IF \E k \in DOMAIN ids : P.ty[ids[k]] = "s" /\ P.sacc[ids[k]] = a
     THEN ids[CHOOSE k \in DOMAIN ids : P.ty[ids[k]] = "s" /\ P.sacc[ids[k]] = a
                        /\ \A k2 \in DOMAIN ids : (P.ty[ids[k2]] = "s" /\ P.sacc[ids[k2]] = a) => k2 <= k]
     ELSE cur[a]]

Def(P, m, ids, vals) ==
  [m EXCEPT !.env = AssignEnv(@, ids, vals), !.defd = @ \cup Range(ids),
            !.ever = @ \cup Range(ids), !.last = ids, !.cur = CurAfter(P, @, ids)]

M0(P, orc, regkeys, accs, uf) ==
  Def(P,
      [pc |-> 1, status |-> "run", env |-> [i \in 1..P.nv |-> 0], defd |-> {}, ever |-> {},
       last |-> <<>>, ocur |-> 0, scur |-> 0, log |-> <<>>, fault |-> "none", steps |-> 0,
       regs |-> [key \in regkeys |-> [def |-> FALSE, v |-> 0]],
       cur |-> [a \in accs |-> 0], uf |-> uf, core |-> 0, rd |-> {}, wr |-> {}, nalloc |-> 0, cont |-> <<>>,
       mem |-> IF P.dma = 1 THEN [a \in 1..P.memtop |-> IF a <= P.srctop THEN a ELSE 0] ELSE <<>>],
      P.args, ArgVals(P, orc))

Fault(m, f) == [m EXCEPT !.fault = IF @ = "none" THEN f ELSE @, !.status = "fault"]
Goto(m, pc) == [m EXCEPT !.pc = pc]
Adv(m) == [m EXCEPT !.pc = @ + 1]
Log(m, e) == [m EXCEPT !.log = Append(@, e)]

Vals(m, ids) == [i \in DOMAIN ids |-> m.env[ids[i]]]

(* ids defined inside the region(s) of op i, including its block arguments *)
BodyIds(P, i) ==
  Range(P.ops[i].ba) \cup Range(P.ops[i].ba2) \cup
  UNION {Range(P.ops[j].r) \cup Range(P.ops[j].ba) : j \in (i+1)..P.ops[i].end}

(* uninterpreted functions *)
InternIdx(uf, key) == IF \E i \in DOMAIN uf : uf[i] = key
                      THEN CHOOSE i \in DOMAIN uf : uf[i] = key ELSE Len(uf) + 1
InternTab(uf, key) == IF \E i \in DOMAIN uf : uf[i] = key THEN uf ELSE Append(uf, key)

RECURSIVE InternAll(_, _, _, _)
InternAll(uf, base, n, acc) ==   \* intern keys <<base, 1>> .. <<base, n>>, returns <<uf, vals>>
  IF Len(acc) = n THEN <<uf, acc>>
  ELSE LET key == <<base, Len(acc) + 1>> IN
       InternAll(InternTab(uf, key), base, n, Append(acc, UFBase + InternIdx(uf, key)))

OracleVal(orc, cur) == orc.opq[(cur % Len(orc.opq)) + 1]
StatusVal(orc, cur) == orc.st[(cur % Len(orc.st)) + 1]

(***************************************************************************)
(* One step                                                                *)
(***************************************************************************)
HasAccfgEffects(op) == IF op.fx # "" THEN op.fx # "none" ELSE op.k = "call"

StepFor(P, m, i, op) ==
  LET lb == m.env[op.a[1]]  ub == m.env[op.a[2]]  st == m.env[op.a[3]]
      inits == [k \in 1..(Len(op.a) - 3) |-> m.env[op.a[k + 3]]] IN
  IF st <= 0 THEN Fault(m, "BadStep")
  ELSE IF lb < ub
       THEN Adv(Def(P, [m EXCEPT !.defd = @ \ BodyIds(P, i)], op.ba, <<lb>> \o inits))
       ELSE Goto(Def(P, m, op.r, inits), op.end + 1)

StepYield(P, m, i, op) ==
  LET hi == op.mid  h == P.ops[hi]  vals == Vals(m, op.a)
      m1 == [m EXCEPT !.defd = @ \ BodyIds(P, hi)] IN
  IF h.k = "for"
  THEN LET nxt == m.env[h.ba[1]] + m.env[h.a[3]] IN
       IF nxt < m.env[h.a[2]]
       THEN Goto(Def(P, m1, h.ba, <<nxt>> \o vals), hi + 1)
       ELSE Goto(Def(P, m1, h.r, vals), h.end + 1)
  ELSE IF h.k = "if"
  THEN Goto(Def(P, m1, h.r, vals), h.end + 1)
  ELSE IF h.k = "while"
  THEN Goto(Def(P, m1, h.ba, vals), hi + 1)
  ELSE Fault(m, "Unsupported:yield")

(* scf.while: before-region ends in scf.condition(c, args); after-region in scf.yield *)
StepWhile(P, m, i, op) ==
  Adv(Def(P, [m EXCEPT !.defd = @ \ BodyIds(P, i)], op.ba, Vals(m, op.a)))

StepCond(P, m, i, op) ==
  LET hi == op.mid  h == P.ops[hi]
      args == [k \in 1..(Len(op.a) - 1) |-> m.env[op.a[k + 1]]] IN
  IF m.env[op.a[1]] # 0
  THEN Goto(Def(P, m, h.ba2, args), h.mid)
  ELSE Goto(Def(P, [m EXCEPT !.defd = @ \ BodyIds(P, hi)], h.r, args), h.end + 1)

StepIf(P, m, i, op) ==
  IF m.env[op.a[1]] # 0 THEN Adv(m)
  ELSE IF op.mid > op.end
       THEN (IF Len(op.r) = 0 THEN Goto(m, op.end + 1) ELSE Fault(m, "IfNoElse"))
       ELSE Goto(m, op.mid)

(* symbolic buffer contents (P.track = 1): every cell (buffer or view value) holds a term; initially its own id.
   memref.copy moves the term, linalg.generic writes a fresh term built from the terms it reads. *)
ContOf(m, v) == IF v \in DOMAIN m.cont THEN m.cont[v] ELSE v
TrackedOp(P, op) == P.track = 1 /\ op.n \in {"memref.copy", "linalg.generic"}
NInsOf(op) == IF op.n = "memref.copy" THEN 1 ELSE IF Len(op.iv) >= 1 THEN op.iv[1] ELSE 0

RECURSIVE WriteTerms(_, _, _, _, _, _)
WriteTerms(uf, cont, outs, base, k, acc) ==   \* returns <<uf, cont>> after writing a fresh term into every output cell
  IF k > Len(outs) THEN <<uf, cont>>
  ELSE LET key == <<base, k>>
           idx == InternIdx(uf, key)
           uf2 == InternTab(uf, key) IN
       WriteTerms(uf2, (outs[k] :> (UFBase + idx)) @@ cont, outs, base, k + 1, acc)

(* opaque operation with side effects: an event; results come from the oracle *)
StepOpaque(P, orc, m, op) ==
  LET vals == Vals(m, op.a)
      res == [k \in DOMAIN op.r |->
                LET v == OracleVal(orc, m.ocur + k - 1) IN
                IF P.w[op.r[k]] = 1 THEN v % 2 ELSE v]
      tracked == TrackedOp(P, op)
      nin == NInsOf(op)
      rt == IF tracked THEN [k \in 1..nin |-> ContOf(m, vals[k])] ELSE <<>>
      outs == IF tracked THEN SubSeq(vals, nin + 1, Len(vals)) ELSE <<>>
      wr == IF ~tracked THEN <<m.uf, m.cont>>
            ELSE IF op.n = "memref.copy" THEN <<m.uf, (outs[1] :> rt[1]) @@ m.cont>>
            ELSE WriteTerms(m.uf, m.cont, outs, <<"term", <<op.sv[1]>>, rt>>, 1, <<>>)
      m1 == Log([m EXCEPT !.uf = wr[1], !.cont = wr[2]],
                [k |-> "op", i |-> m.pc, n |-> op.n, s |-> op.sv, vals |-> vals, iv |-> op.iv, rt |-> rt,
                 ams |-> [j \in DOMAIN op.a |-> P.msp[op.a[j]]]])
      m2 == IF HasAccfgEffects(op)
            THEN [m1 EXCEPT !.regs = HavocAll(@), !.cur = [a \in DOMAIN @ |-> 0]] ELSE m1
  IN Adv(Def(P, [m2 EXCEPT !.ocur = @ + Len(op.r)], op.r, res))

StepPure(P, m, op) ==
  LET t == InternAll(m.uf, <<op.n, op.sv, Vals(m, op.a)>>, Len(op.r), <<>>) IN
  Adv(Def(P, [m EXCEPT !.uf = t[1]], op.r, t[2]))

StepSetup(P, m, op) ==
  LET acc == op.sv[1]  nf == Len(op.sv) - 1
      thr == P.thr = 1 /\ op.iv[1] = 1 /\ m.cur[acc] # op.a[nf + 1]
      m1 == [m EXCEPT !.regs = SetupWrite(@, acc, [k \in 1..nf |-> op.sv[k + 1]],
                                          [k \in 1..nf |-> m.env[op.a[k]]])]
      m1b == IF P.logsetup = 1
             THEN Log(m1, [k |-> "setup", i |-> m.pc, acc |-> acc, names |-> [k \in 1..nf |-> op.sv[k + 1]],
                           vals |-> [k \in 1..nf |-> m.env[op.a[k]]], snap |-> Snapshot(m1.regs, acc)])
             ELSE m1
      m2 == Adv(Def(P, m1b, op.r, <<0>>)) IN
  IF thr THEN Fault(m2, "Threaded") ELSE m2

StepLaunch(P, m, op) ==
  LET acc == op.sv[1]  nf == Len(op.sv) - 1
      thr == P.thr = 1 /\ m.cur[acc] # op.a[nf + 1]
      ev == [k |-> "launch", i |-> m.pc, acc |-> acc, names |-> [k \in 1..nf |-> op.sv[k + 1]],
             vals |-> [k \in 1..nf |-> m.env[op.a[k]]], snap |-> Snapshot(m.regs, acc)]
      m2 == Adv(Def(P, Log(m, ev), op.r, <<0>>)) IN
  IF thr THEN Fault(m2, "Threaded") ELSE m2

StepAwait(P, m, op) == Adv(Log(m, [k |-> "await", i |-> m.pc, acc |-> op.sv[1]]))

StepReset(P, m, op) ==
  LET acc == op.sv[1] IN
  Adv([m EXCEPT !.regs = HavocAcc(@, acc), !.cur = [@ EXCEPT ![acc] = 0]])

StepBin(P, m, op) ==
  LET x == m.env[op.a[1]]  y == m.env[op.a[2]] IN
  IF BinNeedsNonZero(op.n) /\ y = 0 THEN Fault(m, "DivByZero")
  ELSE IF op.n = "arith.andi" /\ ~Narrow(op.w) /\ (x < 0 \/ y < 0) /\ ((x >= 0 /\ x < 2^30) \/ (y >= 0 /\ y < 2^30))
       THEN (* a non-negative operand below 2^30 masks the low bits of the other one (two's complement) *)
            Adv(Def(P, m, op.r, <<(x % (2^30)) & (y % (2^30))>>))
  ELSE IF BinIsBitwise(op.n) /\ ~Narrow(op.w) /\ (x < 0 \/ y < 0) THEN Fault(m, "Unsupported:bitwise-neg")
  ELSE IF op.n \in {"arith.shli", "arith.shrsi", "arith.shrui"} /\ (y < 0 \/ y > 30) THEN Fault(m, "Unsupported:shift")
  ELSE IF op.n = "arith.shli" /\ ~Narrow(op.w) /\ (x < 0 \/ x >= 2^(30 - y))
       THEN StepPure(P, m, op)   \* would leave TLC's 32-bit integers: the result is an uninterpreted value
  ELSE IF BinIsBitwise(op.n) /\ ~Narrow(op.w) /\ (x >= UFBase \/ y >= UFBase) THEN StepPure(P, m, op)
  ELSE IF op.n = "arith.ori" /\ ~Narrow(op.w) /\ (x >= UFBase \/ y >= UFBase) THEN StepPure(P, m, op)
  ELSE Adv(Def(P, m, op.r, <<Wrap(BinOp(op.n, x, y, op.w), op.w)>>))

StepCast(P, m, op) ==
  LET x == m.env[op.a[1]]
      v == CASE op.n = "arith.extui" -> Unsigned(x, op.iv[1])
             [] op.n = "arith.index_castui" -> Unsigned(x, op.iv[1])
             [] op.n = "arith.trunci" -> Wrap(x, op.w)
             [] OTHER -> Wrap(x, op.w)
  IN Adv(Def(P, m, op.r, <<v>>))

(* inline assembly: CSR accesses and RoCC custom instructions are observable events *)
StepAsm(P, orc, m, op) ==
  LET t == op.sv[1] IN
  CASE t = "csrw" -> Adv(Log(m, [k |-> "w", i |-> m.pc, addr |-> op.iv[1], v |-> m.env[op.a[1]]]))
    [] t = "csrr" -> Adv(Def(P, Log([m EXCEPT !.scur = @ + 1], [k |-> "r", i |-> m.pc, addr |-> op.iv[1]]),
                             op.r, <<StatusVal(orc, m.scur)>>))
    [] t = "csrw2" -> Adv(Log(m, [k |-> "w", i |-> m.pc, addr |-> m.env[op.a[1]], v |-> m.env[op.a[2]]]))
    [] t = "csrr2" -> Adv(Def(P, Log([m EXCEPT !.scur = @ + 1], [k |-> "r", i |-> m.pc, addr |-> m.env[op.a[1]]]),
                              op.r, <<StatusVal(orc, m.scur)>>))
    [] t = "nop" -> Adv(m)
    [] t = "mcycle" -> Adv(Log(m, [k |-> "op", i |-> m.pc, n |-> "llvm.inline_asm", s |-> op.sv, vals |-> <<>>, iv |-> <<>>, rt |-> <<>>, ams |-> <<>>]))
    [] t = "insn" -> Adv(Log(m, [k |-> "insn", i |-> m.pc, f7 |-> op.iv[3], rs1 |-> m.env[op.a[1]], rs2 |-> m.env[op.a[2]]]))
    [] t = "insn_rd" -> Adv(Def(P, Log([m EXCEPT !.ocur = @ + 1],
                                 [k |-> "insn", i |-> m.pc, f7 |-> op.iv[3], rs1 |-> m.env[op.a[1]], rs2 |-> m.env[op.a[2]]]),
                             op.r, <<OracleVal(orc, m.ocur)>>))
    [] OTHER -> Fault(m, "Unsupported:" \o t)

(* ---- memref values: interned descriptors ---- *)
DynMark == -777777
IsInterned(m, v) == v > UFBase /\ v - UFBase <= Len(m.uf)
KeyOf(m, v) == m.uf[v - UFBase][1]     \* InternAll wraps keys as <<key, resultIndex>>

RECURSIVE Resolve(_, _, _, _, _)
Resolve(stat, dyn, mark, k, acc) ==   \* replace marks in stat by successive elements of dyn
  IF Len(acc) = Len(stat) THEN acc
  ELSE LET s == stat[Len(acc) + 1] IN
       IF s = mark THEN Resolve(stat, dyn, mark, k + 1, Append(acc, dyn[k]))
       ELSE Resolve(stat, dyn, mark, k, Append(acc, s))
CountMarks(stat, mark) == Cardinality({i \in DOMAIN stat : stat[i] = mark})

(* P.allocsite = 1: every executed allocation is a distinct buffer (numbered in execution order);
   P.allocsite = 0: allocations are identified by type and sizes only (loop restructuring may move them) *)
StepAlloc(P, m, op) ==
  LET sizes == Resolve(op.iv, Vals(m, op.a), -1, 1, <<>>)
      key == IF P.allocsite = 1 THEN sizes \o <<-1 - m.nalloc>> ELSE sizes
      tys == IF P.allocsite = 1 THEN <<>> ELSE <<op.sv[1]>>     \* an instance is identified by its number alone
      t == InternAll(m.uf, <<"alloc", tys, key>>, 1, <<>>) IN
  Adv(Def(P, [m EXCEPT !.uf = t[1], !.nalloc = @ + 1], op.r, t[2]))

StepSubview(P, m, op) ==
  LET rank == Len(op.iv) \div 3
      so == SubSeq(op.iv, 1, rank)  ss == SubSeq(op.iv, rank + 1, 2 * rank)  st == SubSeq(op.iv, 2 * rank + 1, 3 * rank)
      dyn == Vals(m, op.a)
      no == CountMarks(so, DynMark)  ns == CountMarks(ss, DynMark)
      offs == Resolve(so, SubSeq(dyn, 2, 1 + no), DynMark, 1, <<>>)
      sizes == Resolve(ss, SubSeq(dyn, 2 + no, 1 + no + ns), DynMark, 1, <<>>)
      strs == Resolve(st, SubSeq(dyn, 2 + no + ns, Len(dyn)), DynMark, 1, <<>>)
      t == InternAll(m.uf, <<"subview", <<>>, <<dyn[1]>> \o offs \o sizes \o strs>>, 1, <<>>) IN
  Adv(Def(P, [m EXCEPT !.uf = t[1]], op.r, t[2]))

(* memref function arguments may come with a run-time descriptor chosen by the oracle:
   [valid, base (bytes), off (elements), sizes, strides (elements), L (resolved layout)] *)
ArgTokenBase == 900000
HasDesc(orc, v) == v > ArgTokenBase /\ v <= ArgTokenBase + Len(orc.desc) /\ orc.desc[v - ArgTokenBase].valid = 1
DescOf(orc, v) == orc.desc[v - ArgTokenBase]

StepPtr(P, orc, m, op) ==
  LET v == m.env[op.a[1]] IN
  IF HasDesc(orc, v) THEN Adv(Def(P, m, op.r, <<DescOf(orc, v).base>>)) ELSE StepPure(P, m, op)

StepMetadata(P, orc, m, op) ==
  LET v == m.env[op.a[1]] IN
  IF HasDesc(orc, v)
  THEN LET d == DescOf(orc, v)  vals == <<0, d.off>> \o d.sizes \o d.strides IN
       IF Len(vals) = Len(op.r) THEN Adv(Def(P, m, op.r, vals)) ELSE Fault(m, "MetadataArity")
  ELSE StepPure(P, m, op)

(* DMA engine (runtime/include/snax_rt.h): 1-D copies size bytes; 2-D repeats it with strides *)
InMem(m, a, n) == n >= 0 /\ a >= 0 /\ a + n <= Len(m.mem)
Copy1(mem, s, d, n) == [a \in DOMAIN mem |-> IF a - 1 >= d /\ a - 1 < d + n THEN mem[s + (a - 1 - d) + 1] ELSE mem[a]]
RECURSIVE Copy2(_, _, _, _, _, _, _)
Copy2(mem, s, d, n, ss, ds, rep) ==
  IF rep <= 0 THEN mem ELSE Copy2(Copy1(mem, s, d, n), s + ss, d + ds, n, ss, ds, rep - 1)
Range2(a, n, st, rep) == UNION {(a + r * st)..(a + r * st + n - 1) : r \in 0..(rep - 1)}

StepDma(P, orc, m, op) ==
  LET v == Vals(m, op.a)
      two == op.sv[1] = "snax_dma_2d_transfer"
      s == v[1]  d == v[2]  n == v[3]
      ss == IF two THEN v[4] ELSE 0  ds == IF two THEN v[5] ELSE 0  rep == IF two THEN v[6] ELSE 1
      m1 == Log(m, [k |-> "op", i |-> m.pc, n |-> op.n, s |-> op.sv, vals |-> v, iv |-> op.iv, rt |-> <<>>, ams |-> <<>>]) IN
  IF n < 0 \/ rep < 0 THEN Fault(m1, "DmaNegativeSize")
  ELSE IF rep > 0 /\ n > 0 /\ ~(\A r \in 0..(rep - 1) : InMem(m, s + r * ss, n) /\ InMem(m, d + r * ds, n)) THEN Fault(m1, "DmaOutOfMemory")
  ELSE Adv([m1 EXCEPT !.mem = Copy2(@, s, d, n, ss, ds, rep),
                      !.rd = @ \cup Range2(s, n, ss, rep), !.wr = @ \cup Range2(d, n, ds, rep)])

StepDim(P, orc, m, op) ==
  LET src == m.env[op.a[1]]  idx == m.env[op.a[2]] IN
  IF HasDesc(orc, src) /\ idx >= 0 /\ idx < Len(DescOf(orc, src).sizes)
  THEN Adv(Def(P, m, op.r, <<DescOf(orc, src).sizes[idx + 1]>>))
  ELSE IF IsInterned(m, src) /\ KeyOf(m, src)[1] = "alloc" /\ idx >= 0 /\ idx < Len(KeyOf(m, src)[3])
  THEN Adv(Def(P, m, op.r, <<KeyOf(m, src)[3][idx + 1]>>))
  ELSE IF IsInterned(m, src) /\ KeyOf(m, src)[1] = "subview" /\ idx >= 0 /\ idx < (Len(KeyOf(m, src)[3]) - 1) \div 3
  THEN Adv(Def(P, m, op.r, <<KeyOf(m, src)[3][1 + ((Len(KeyOf(m, src)[3]) - 1) \div 3) + idx + 1]>>))
  ELSE StepPure(P, m, op)

(* an operation with regions the machine does not interpret (linalg.generic, streaming regions, ...):
   one atomic observable operation; its body is not entered *)
StepRegionOpaque(P, orc, m, op) ==
  LET m1 == StepOpaque(P, orc, m, op) IN
  IF m1.status = "run" THEN Goto(m1, op.end + 1) ELSE m1

(* run-time intrinsic: the id of the executing core *)
StepCoreIdx(P, orc, m, op) == Adv(Def(P, m, op.r, <<orc.core>>))

(* named kernels (C18): their scalar meaning; mac / qmac accumulate into the output argument (last block argument) *)
ClampTo(x, lo, hi) == IF x < lo THEN lo ELSE IF x > hi THEN hi ELSE x
KernelSem(op, v, out, w) ==
  CASE op.sv[1] = "kernel.mul" -> Wrap(v[1] * v[2], w)
    [] op.sv[1] = "kernel.add" -> Wrap(v[1] + v[2], w)
    [] op.sv[1] = "kernel.mac" -> Wrap(out + v[1] * v[2], w)
    [] op.sv[1] = "kernel.qmac" -> Wrap(out + (v[1] - v[3]) * (v[2] - v[4]), w)
    [] op.sv[1] = "kernel.rescale" ->
         (* single channel, truncating arithmetic shift, no double rounding *)
         Wrap(ClampTo((((v[1] - op.iv[1]) * op.iv[3]) \div (2^op.iv[4])) + op.iv[2], op.iv[5], op.iv[6]), w)
    [] OTHER -> 0
StepKernel(P, m, op) ==
  IF op.sv[1] \notin {"kernel.mul", "kernel.add", "kernel.mac", "kernel.qmac", "kernel.rescale"} THEN Fault(m, "Unsupported:" \o op.sv[1])
  ELSE Adv(Def(P, m, op.r, <<KernelSem(op, Vals(m, op.a), m.env[P.args[Len(P.args)]], op.w)>>))

(* snax.alloc(size, shapes...): a fresh buffer instance; the event records the static site and the evaluated size *)
StepSnaxAlloc(P, m, op) ==
  LET t == InternAll(m.uf, <<"alloc", <<op.sv[1]>>, <<-1 - m.nalloc>>>>, 1, <<>>)
      ev == [k |-> "alloc", i |-> m.pc, site |-> op.iv[1], inst |-> t[2][1], size |-> m.env[op.a[1]],
             shapes |-> [j \in 1..(Len(op.a) - 1) |-> m.env[op.a[j + 1]]]] IN
  Adv(Def(P, Log([m EXCEPT !.uf = t[1], !.nalloc = @ + 1], ev), op.r, t[2]))

(* casts that only re-type a value are aliases of their source *)
StepAlias(P, m, op) ==
  IF Len(op.a) = 1 /\ Len(op.r) = 1 THEN Adv(Def(P, m, op.r, <<m.env[op.a[1]]>>)) ELSE StepPure(P, m, op)

MStepRaw(P, orc, m) ==
  LET i == m.pc  op == P.ops[i] IN
  IF i > Len(P.ops) THEN [m EXCEPT !.status = "done"]
  ELSE IF \E k \in DOMAIN op.a : op.a[k] \notin m.defd THEN Fault(m, "UseBeforeDef")
  ELSE CASE op.k = "const" -> Adv(Def(P, m, op.r, <<op.iv[1]>>))
         [] op.k = "bin" -> StepBin(P, m, op)
         [] op.k = "cmpi" -> Adv(Def(P, m, op.r, <<CmpOp(op.iv[1], m.env[op.a[1]], m.env[op.a[2]], P.w[op.a[1]])>>))
         [] op.k = "select" -> Adv(Def(P, m, op.r, <<IF m.env[op.a[1]] # 0 THEN m.env[op.a[2]] ELSE m.env[op.a[3]]>>))
         [] op.k = "cast" -> StepCast(P, m, op)
         [] op.k = "for" -> StepFor(P, m, i, op)
         [] op.k = "yield" -> StepYield(P, m, i, op)
         [] op.k = "if" -> StepIf(P, m, i, op)
         [] op.k = "while" -> StepWhile(P, m, i, op)
         [] op.k = "cond" -> StepCond(P, m, i, op)
         [] op.k = "kernel" -> StepKernel(P, m, op)
         [] op.k = "snaxalloc" -> StepSnaxAlloc(P, m, op)
         [] op.k \in {"ucc", "viewcast"} -> StepAlias(P, m, op)
         [] op.k = "lyield" -> Log([m EXCEPT !.status = "done"], [k |-> "ret", i |-> i, vals |-> Vals(m, op.a)])
         [] op.k = "ret" -> Log([m EXCEPT !.status = "done"], [k |-> "ret", i |-> i, vals |-> Vals(m, op.a)])
         [] op.k = "setup" -> StepSetup(P, m, op)
         [] op.k = "launch" -> StepLaunch(P, m, op)
         [] op.k = "await" -> StepAwait(P, m, op)
         [] op.k = "reset" -> StepReset(P, m, op)
         [] op.k = "asm" -> StepAsm(P, orc, m, op)
         [] op.k = "call" /\ op.sv[1] = "snax_cluster_core_idx" -> StepCoreIdx(P, orc, m, op)
         [] op.k \in {"call", "eff"} /\ ~(op.k = "call" /\ op.sv[1] \in {"snax_dma_1d_transfer", "snax_dma_2d_transfer"} /\ Len(m.mem) > 0)
                                  /\ ~(op.k = "call" /\ op.sv[1] = "snax_cluster_core_idx")
              -> StepOpaque(P, orc, m, op)
         [] op.k = "region" -> StepRegionOpaque(P, orc, m, op)
         [] op.k = "pure" -> StepPure(P, m, op)
         [] op.k = "alloc" -> StepAlloc(P, m, op)
         [] op.k = "subview" -> StepSubview(P, m, op)
         [] op.k = "dim" -> StepDim(P, orc, m, op)
         [] op.k = "ptr" -> StepPtr(P, orc, m, op)
         [] op.k = "metadata" -> StepMetadata(P, orc, m, op)
         [] op.k = "call" /\ op.sv[1] \in {"snax_dma_1d_transfer", "snax_dma_2d_transfer"} /\ Len(m.mem) > 0 -> StepDma(P, orc, m, op)
         [] op.k \in {"copy", "dealloc", "barrier"} -> StepOpaque(P, orc, m, op)
         [] OTHER -> Fault(m, "Unsupported:" \o op.n)

(* claims: what the compiler assumes a state-typed value guarantees (C07) *)
ClaimViolated(P, m) ==
  \E ci \in DOMAIN P.claims :
     LET c == P.claims[ci] IN
     /\ \E k \in DOMAIN m.last : m.last[k] = c.s
     /\ c.x \in m.ever
     /\ ~(m.regs[<<c.acc, c.f>>].def /\ m.regs[<<c.acc, c.f>>].v = m.env[c.x])

MaxSteps == 4000

MStep(P, orc, m) ==
  LET m0 == [m EXCEPT !.last = <<>>, !.steps = @ + 1]
      m1 == MStepRaw(P, orc, m0) IN
  IF m0.steps > MaxSteps THEN Fault(m0, "StepLimit")
  ELSE IF ClaimViolated(P, m1) THEN Fault(m1, "ClaimHolds")
  ELSE m1
=============================================================================
