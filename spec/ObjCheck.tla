------------------------------ MODULE ObjCheck ------------------------------
(***************************************************************************)
(* Judges batches of objects exported from the real code (layouts, affine  *)
(* maps, schedules, templates, stride patterns, register files, ...)       *)
(* against the meaning given by the specification modules.  One behaviour  *)
(* per case: Init picks the case, Judge evaluates every clause and records *)
(* the first failing one.                                                  *)
(***************************************************************************)
EXTENDS Integers, Sequences, FiniteSets, TLC, Json, IOUtils, Layout, Affine, Template, Streamer, CsrLayout, PE, Dart

Batch == JsonDeserialize(IOEnv.BATCH)
Cases == Batch.cases

VARIABLES tid, verdict
vars == <<tid, verdict>>

First(clauses) ==  \* clauses: sequence of <<name, BOOLEAN>>; name of the first false one
  IF \A i \in DOMAIN clauses : clauses[i][2] THEN "ok"
  ELSE clauses[CHOOSE i \in DOMAIN clauses : ~clauses[i][2] /\ \A j \in DOMAIN clauses : ~clauses[j][2] => i <= j][1]

(* ---------------- C10: tiled-strided layouts ---------------- *)
LcbOK1(L, q) ==
  LET blk == q.result  st == q.start IN
  \/ (Len(blk) = 1 /\ blk[1].b = 1 /\ blk[1].s = st)
  \/ /\ IsChain(blk, 1, st)
     /\ \A k \in DOMAIN blk : blk[k].b > 1 => SameSlot(L, q.other, blk[k])
LcbOK(c) == LcbOK1(c.L, c.lcb) /\ \A k \in DOMAIN c.lcbs : LcbOK1(c.lcbs[k].self, c.lcbs[k])
(* layouts the real code calls equal denote the same address function (and have the same offset) *)
EqOK(c) == \A k \in DOMAIN c.eqs : c.eqs[k].equal = 1 =>
             /\ Shape(c.eqs[k].other) = Shape(c.L) /\ c.eqs[k].other.off = c.L.off
             /\ \A i \in Box(Shape(c.L)) : Addr(c.eqs[k].other, i) = Addr(c.L, i)

TslStatic(c) ==
  LET L == c.L  box == Box(Shape(L)) IN
  First(<<
    <<"AffineMapView", \A i \in box : AffEval(c.affine, i) = Addr(L, i)>>,
    <<"AllValuesView", c.allvalues = AllValues(L)>>,
    <<"OverlapPredicate", (c.overlaps = 1) = SelfOverlaps(L)>>,
    <<"DensePredicate", (c.dense = 1) = IsDense(L)>>,
    <<"CanonicalizeShape", Shape(c.canon) = Shape(L)>>,
    <<"CanonicalizeMeaning", \A i \in box : Addr(c.canon, i) = Addr(L, i)>>,
    <<"CanonicalizeIdempotent", c.canon2 = c.canon>>,
    <<"PrintParse", c.reparsed = L>>,
    <<"AttributePrintParse", c.attr_reparsed = L>>,       \* through the IR attribute printer and parser (memref types in printed IR)
    <<"PrintParseCanon", c.canon_reparsed = c.canon>>,
    <<"FromStrides", c.fs.result = FromStrides(c.fs.strides, c.fs.tilebounds, c.fs.off)>>,
    <<"CommonContiguousBlock", LcbOK(c)>>,
    <<"EqualMeansSameFunction", EqOK(c)>>
  >>)

TslDynamic(c) ==
  First(<<
    <<"PrintParse", c.reparsed = c.L>>,
    <<"AttributePrintParse", c.attr_reparsed = c.L>>,
    <<"CanonicalizeIdempotent", c.canon2 = c.canon>>,
    <<"PrintParseCanon", c.canon_reparsed = c.canon>>
  >>)

(* ---------------- C03 / C16: scheduler traces and template matching ---------------- *)
StepOK(cur, st) ==
  CASE st.act = "rotate" -> st.a \in 1..NumDims(cur) /\ st.result = Rotate(cur, st.a)
    [] st.act = "tile" -> CanTile(cur, st.a, st.b) /\ st.result = Tile(cur, st.a, st.b)
    [] st.act = "adddim" -> st.result = AddDim(cur)
    [] st.act = "dropunit" -> st.result = DropUnit(cur)
    [] OTHER -> FALSE
Before(c, k) == IF k = 1 THEN c.init ELSE c.steps[k - 1].result
FinalSched(c) == IF Len(c.steps) = 0 THEN c.init ELSE c.steps[Len(c.steps)].result
Has(seq, x) == \E i \in DOMAIN seq : seq[i] = x

SchedTrace(c) ==
  LET fin == c.final  nt == Len(c.template.bounds) IN
  First(<<
    <<"TraceStep", \A k \in DOMAIN c.steps : StepOK(Before(c, k), c.steps[k])>>,
    <<"TraceEndsInResult", FinalSched(c) = fin>>,
    <<"IterSpace", SameIterSpace(c.init, fin)>>,
    <<"FitsTemplate", Fits(c.template, fin)>>,
    <<"PureOutputStationary", Has(c.checks, "pos") => PureOutputStationary(fin, nt)>>,
    <<"MemoryFlexible", Has(c.checks, "mem") => MemoryFlexible(fin, nt, c.sizes)>>
  >>)

(* the schedule the real dart-scheduler PASS attaches to an operation (several operations per module) visits the iteration
   space of that operation: bounds from its own operand shapes, patterns as written *)
SchedPair(c) == First(<< <<"IterSpace", SameIterSpace(c.init, c.result)>> >>)

MatchCase(c) ==
  First(<< <<"MatchesIffSameSubspace", (c.got = 1) = PatMatches(c.tA, c.sA, c.tnd, c.snd)>> >>)

(* elementary transformation applied by the real code (API-level conformance) *)
ApiStep(c) ==
  First(<<
    <<"ApiResult", StepOK(c.init, [act |-> c.act, a |-> c.a, b |-> c.b, result |-> c.result])>>,
    <<"IterSpace", SameIterSpace(c.init, c.result)>>
  >>)

(* ---------------- C19: canonical forms and alternative representations ---------------- *)
PtBox(nd, lo, hi) == Box0(nd, lo, hi)

AffCanon(c) ==
  LET pts == {p \in PtBox(c.nd, c.lo, c.hi) : AffSafe(c.e, p)} IN
  First(<<
    <<"CanonicalizeMeaning", \A p \in pts : AffSafe(c.c, p) /\ AffEval(c.c, p) = AffEval(c.e, p)>>,
    <<"CanonicalizeIdempotent", c.c2 = c.c>>
  >>)

MatVec(A, b, x) == [i \in DOMAIN A |-> Dot(A[i], x) + b[i]]
AffMapCase(c) ==
  LET pts == PtBox(c.nd, c.lo, c.hi) IN
  First(<<
    <<"FromAffineMap", \A p \in pts : MatVec(c.A, c.b, p) = [i \in DOMAIN c.results |-> AffEval(c.results[i], p)]>>,
    <<"ToAffineMap", \A p \in pts : MatVec(c.A, c.b, p) = [i \in DOMAIN c.back |-> AffEval(c.back[i], p)]>>,
    <<"Eval", \A k \in DOMAIN c.evalpts : c.evalgot[k] = MatVec(c.A, c.b, c.evalpts[k])>>
  >>)

ComposeCase(c) ==
  LET pts == PtBox(c.nd, c.lo, c.hi) IN
  First(<< <<"Compose", \A p \in pts : MatVec(c.CA, c.Cb, p) = MatVec(c.A1, c.b1, MatVec(c.A2, c.b2, p))>> >>)

(* a dynamic bound (exported as 0) is kept by canonicalisation like any bound other than 1; for the comparison of meanings it is
   instantiated with an extent of 3 *)
InstDyn(S) == [S EXCEPT !.bounds = [j \in DOMAIN S.bounds |-> IF S.bounds[j] = 0 THEN 3 ELSE S.bounds[j]]]
AccessPatCase(c) ==
  First(<<
    <<"CanonicalizeMeaning", SameIterSpace(InstDyn(c.orig), InstDyn(c.canon))>>,
    <<"CanonicalizeIsDropUnit", c.canon = DropUnit(c.orig)>>,
    <<"CanonicalizeIdempotent", c.canon2 = c.canon>>,
    <<"InnerDims", c.inner = InnerDims(c.orig, c.k)>>
  >>)

StridePatCase(c) ==
  First(<<
    <<"CanonicalizeAddressSequence", AddrSeq(c.canon.ub, c.canon.ts) = AddrSeq(c.orig.ub, c.orig.ts)>>,
    <<"CanonicalizeSpatial", c.canon.ss = c.orig.ss>>,
    <<"CanonicalizeIdempotent", c.canon2 = c.canon>>,
    <<"PrintParse", c.reparsed = c.orig>>
  >>)

(* ---------------- C09: layouts chosen by the compiler ---------------- *)
ChosenLayout(c) ==
  First(<<
    <<"RankMatches", Len(c.L.dims) = Len(c.shape)>>,
    <<"CoversShape", \A d \in DOMAIN c.shape : ProdFrom(c.L.dims[d], 1) = c.shape[d]>>,
    <<"Injective", Injective(c.L)>>
  >>)

(* ---------------- C02: streamer address stream = scheduled element stream ---------------- *)
TemporalBounds(c) == SubSeq(c.bounds, 1, Len(c.bounds) - c.T)
SpatialBoxOf(c) == [j \in 1..c.T |-> IF c.rel[j] = 1 THEN c.bounds[Len(c.bounds) - c.T + j] ELSE 1]
(* temporal index tuple of step n: last temporal dim fastest *)
RECURSIVE AboveProd(_, _)
AboveProd(tb, d) == IF d >= Len(tb) THEN 1 ELSE tb[d + 1] * AboveProd(tb, d + 1)
TIndex(tb, n) == [d \in DOMAIN tb |-> (n \div AboveProd(tb, d)) % tb[d]]
ElemBytes(c, idx) == LET a == Addr(c.L, idx) * c.w IN a..(a + c.w - 1)
SchedBytes(c, n) ==
  LET t == TIndex(TemporalBounds(c), n) IN
  UNION {ElemBytes(c, ApplyPat([A |-> c.A, b |-> c.b], t \o s)) : s \in Box(SpatialBoxOf(c))}

(* One hardware step consumes as many iteration points as the accelerator's template holds.  Where the schedule's innermost (spatial)
   dimensions are shorter than the template's, a hardware step covers Group consecutive temporal steps of the schedule (the same number
   for every operand: it depends on the schedule and the template only) *)
Group(c) ==
  LET inner == Prod(SubSeq(c.bounds, Len(c.bounds) - c.T + 1, Len(c.bounds)), 1)
      full == IF \A j \in DOMAIN c.tb : c.tb[j] > 0 THEN Prod(c.tb, 1) ELSE inner IN
  IF inner > 0 /\ full % inner = 0 THEN full \div inner ELSE 1
(* a pure data mover (xDMA: reader, extension, writer coupled by FIFOs) has no array that all operands feed in lock step: each streamer
   moves its own fixed number of bytes per step, so the group is read off the operand itself *)
ByteGroup(c) ==
  LET hb == Cardinality(StepBytes(c.base, c.ub, c.ts, c.sb, c.ss, 8, 0))  sz == Cardinality(SchedBytes(c, 0)) IN
  IF sz > 0 /\ hb % sz = 0 /\ hb > 0 THEN hb \div sz ELSE 1
StreamCase(c) ==
  LET nsteps == Prod(TemporalBounds(c), 1)
      g0 == IF c.mover = 1 THEN ByteGroup(c) ELSE Group(c)
      g == IF nsteps % g0 = 0 THEN g0 ELSE 1
      hs == nsteps \div g IN
  First(<<
    <<"StepCount", Steps(c.ub) = hs>>,
    <<"StepBytes", Steps(c.ub) = hs => \A n \in 0..(hs - 1) :
         StepBytes(c.base, c.ub, c.ts, c.sb, c.ss, 8, n) = UNION {SchedBytes(c, g * n + q) : q \in 0..(g - 1)}>>
  >>)

(* ---------------- C04 map part: register map injectivity ---------------- *)
MapCase(c) == First(<< <<"InjectiveRegisterMap", InjectiveMap(c.addrs)>> >>)

(* ---------------- C18: dispatch only to accelerators that declare the kernel with these operand types ---------------- *)
DispatchDecl(c) ==
  LET declared == \E i \in DOMAIN c.declared : c.declared[i] = c.sig IN
  First(<< <<"DispatchedOnlyIfDeclared", c.dispatched = 1 => declared>> >>)

(* ---------------- C20: a merged PE, configured as decoded, computes each kernel ---------------- *)
DataBox(n) == Box0(n, -2, 2)
PECase(c) ==
  LET G == c.abstract  nreal == Len(RealSwitches(G)) IN
  First(<<
    <<"DecodeSucceeds", \A j \in DOMAIN c.decoded : c.decoded[j].ok = 1>>,
    <<"SwitchCountReported", c.true_switches = nreal>>,
    <<"SwitchCountDecoded", \A j \in DOMAIN c.decoded : c.decoded[j].ok = 1 => Len(c.decoded[j].sw) = nreal>>,
    <<"ComputesKernel", \A j \in DOMAIN c.decoded : (c.decoded[j].ok = 1 /\ Len(c.decoded[j].sw) = nreal) =>
         \A d \in DataBox(G.ndata) :
            LET v == EvalPE(G, Expand(G, c.decoded[j].sw), d) IN v # Undef /\ v = EvalKernel(c.kernels[j], d)>>,
    \* the accelerator built around the merged PE declares one phs_switch_* register per hardware switch, between the streamer
    \* registers and the loop bound, and configures a kernel with exactly the decoded values
    <<"SwitchFieldsDeclared", c.acc.built = 0 \/ (c.acc.nswitchfields = nreal /\ c.acc.fieldsok = 1)>>,
    <<"SwitchValuesConfigured", c.acc.built = 0 \/ \A j \in DOMAIN c.decoded : c.decoded[j].ok = 1 => c.acc.values[j] = c.decoded[j].sw>>
  >>)

(* ---------------- E05: the hardware view of a merged PE (one-option switches removed) under the software's switch values ---------------- *)
PEHw(c) ==
  LET G == c.abstract  H == c.hw  nreal == Len(RealSwitches(G)) IN
  First(<<
    <<"NoOneOptionSwitchLeft", \A i \in DOMAIN H.nodes : H.nodes[i].kind = "choose" => Len(H.nodes[i].alts) > 1>>,
    <<"HardwareHasTheConfiguredSwitches", H.nsw = nreal /\ Len(RealSwitches(H)) = nreal>>,
    <<"SameDataInputs", H.ndata = G.ndata>>,
    <<"HardwareComputesKernel", \A j \in DOMAIN c.decoded : (c.decoded[j].ok = 1 /\ Len(c.decoded[j].sw) = nreal /\ H.nsw = nreal) =>
         \A d \in DataBox(G.ndata) :
            LET v == EvalPE(H, c.decoded[j].sw, d) IN v # Undef /\ v = EvalKernel(c.kernels[j], d)>>
  >>)

(* ---------------- C12: constants / globals re-laid-out at compile time ---------------- *)
RECURSIVE RowMajorIdx(_, _, _)
RowMajorIdx(shape, idx, d) == IF d > Len(shape) THEN 0 ELSE idx[d] * Prod(shape, d + 1) + RowMajorIdx(shape, idx, d + 1)
Relayout(c) ==
  First(<<
    <<"SameNumberOfElements", Len(c.new) = Len(c.old)>>,
    <<"LogicalValuesAtNewPositions", \A idx \in Box(c.shape) : c.new[Addr(c.L, idx) + 1] = c.old[RowMajorIdx(c.shape, idx, 1) + 1]>>,
    \* a subview of the re-laid-out global at a tile-aligned offset must have the layout its type now claims (the one the cast asked for)
    <<"SubviewHasCastLayout", "sub" \notin DOMAIN c \/
        \A k \in DOMAIN c.sub.offs : \A j \in Box(c.sub.sizes) :
           Addr0(c.L, [d \in DOMAIN j |-> c.sub.offs[k][d] + j[d]]) - Addr0(c.L, c.sub.offs[k]) = Addr0(c.sub.L, j)>>
  >>)

(* the strided type of a subview follows from its source and its static offsets / steps (a dynamic entry, -1, claims nothing) *)
SubviewType(c) ==
  LET n == Len(c.sstr)
      RECURSIVE Off(_) Off(d) == IF d > n THEN 0 ELSE c.offs[d] * c.sstr[d] + Off(d + 1) IN
  First(<<
    <<"SubviewStridesFollowFromOperands", \A d \in 1..n : c.rstr[d] = -1 \/ c.rstr[d] = c.sstr[d] * c.steps[d]>>,
    <<"SubviewOffsetFollowsFromOperands", c.roff = -1 \/ c.soff = -1 \/ c.roff = c.soff + Off(1)>>
  >>)

EqCase(c) == First(<< <<c.clause, c.x = c.y>> >>)

(* ---------------- E04: a rewrite of dart.operation ops keeps the returned tensors (Dart.tla) ---------------- *)
DartPair(c) ==
  IF ~ProgOK(c.A) THEN "SourceWellFormed"
  ELSE IF ~ProgOK(c.B) THEN "ResultWellFormed"
  ELSE IF \E v \in DOMAIN c.vals : Run(c.A, c.vals[v]) # Run(c.B, c.vals[v]) THEN "SameResultTensors"
  ELSE "ok"

JudgeObj(c) ==
  CASE c.kind = "tsl" -> TslStatic(c)
    [] c.kind = "tsl_dyn" -> TslDynamic(c)
    [] c.kind = "schedtrace" -> SchedTrace(c)
    [] c.kind = "schedpair" -> SchedPair(c)
    [] c.kind = "match" -> MatchCase(c)
    [] c.kind = "apistep" -> ApiStep(c)
    [] c.kind = "affcanon" -> AffCanon(c)
    [] c.kind = "affmap" -> AffMapCase(c)
    [] c.kind = "compose" -> ComposeCase(c)
    [] c.kind = "accesspat" -> AccessPatCase(c)
    [] c.kind = "stridepat" -> StridePatCase(c)
    [] c.kind = "eq" -> EqCase(c)
    [] c.kind = "stream" -> StreamCase(c)
    [] c.kind = "regmap" -> MapCase(c)
    [] c.kind = "dispatchdecl" -> DispatchDecl(c)
    [] c.kind = "pe" -> PECase(c)
    [] c.kind = "pehw" -> PEHw(c)
    [] c.kind = "relayout" -> Relayout(c)
    [] c.kind = "subviewtype" -> SubviewType(c)
    [] c.kind = "chosenlayout" -> ChosenLayout(c)
    [] c.kind = "dartpair" -> DartPair(c)
    [] OTHER -> "machinery:unknown-kind"

Init == tid \in 1..Len(Cases) /\ verdict = ""
Judge ==
  /\ verdict = ""
  /\ verdict' = JudgeObj(Cases[tid])
  /\ PrintT(<<"VERDICT", tid, 0, verdict', 0, 0>>)
  /\ UNCHANGED tid
Spec == Init /\ [][Judge]_vars
NoViolation == verdict \in {"", "ok"}
=============================================================================
