------------------------------- MODULE ProgGen -------------------------------
(***************************************************************************)
(* TLC as the generator of small accfg program skeletons: every            *)
(* well-formed token sequence with at most MaxNodes nodes and nesting      *)
(* depth at most MaxDepth is a reachable state with an empty stack.        *)
(*   I<j>  an invocation (setup + launch + await) with value choice j      *)
(*   F ( ... )        scf.for with a run-time trip count                   *)
(*   X ( ... E ... )  scf.if with both arms (either may be empty)          *)
(*   C / S            a call with / without accfg effects                  *)
(*   R                a nested region that launches the last state again   *)
(* The harness renders each sequence to MLIR (harness/gen_small.py); the   *)
(* real passes and the pair contracts then run on ALL of them: exhaustive  *)
(* small-scope coverage next to the random programs of gen_accfg.          *)
(***************************************************************************)
EXTENDS Integers, Sequences, TLC
CONSTANTS NV, MaxNodes, MaxDepth, WithCalls
VARIABLES toks, stack, nodes
vars == <<toks, stack, nodes>>

Leaf == (IF WithCalls = 1 THEN {"C", "S", "R"} ELSE {}) \cup {"I" \o ToString(j) : j \in 1..NV}
Init == toks = <<>> /\ stack = <<>> /\ nodes = 0

AddLeaf == \E t \in Leaf :
  /\ nodes < MaxNodes
  /\ (t = "R" => \E k \in DOMAIN toks : toks[k] \in {"I" \o ToString(j) : j \in 1..NV})   \* something to launch again
  /\ toks' = Append(toks, t) /\ nodes' = nodes + 1 /\ UNCHANGED stack
Open == \E t \in {"F", "X"} :
  /\ nodes < MaxNodes /\ Len(stack) < MaxDepth
  /\ toks' = Append(toks, t) /\ stack' = Append(stack, t) /\ nodes' = nodes + 1
Else ==
  /\ stack # <<>> /\ stack[Len(stack)] = "X"
  /\ toks' = Append(toks, "E") /\ stack' = [stack EXCEPT ![Len(stack)] = "XE"] /\ UNCHANGED nodes
Close ==
  /\ stack # <<>> /\ stack[Len(stack)] \in {"F", "XE"}
  /\ toks' = Append(toks, ")") /\ stack' = SubSeq(stack, 1, Len(stack) - 1) /\ UNCHANGED nodes
Next == AddLeaf \/ Open \/ Else \/ Close
Spec == Init /\ [][Next]_vars

HasInv == \E k \in DOMAIN toks : toks[k] \in {"I" \o ToString(j) : j \in 1..NV}
Emit == (stack = <<>> /\ HasInv) => PrintT(<<"PROGRAM", toks>>)
=============================================================================
