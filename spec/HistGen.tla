------------------------------- MODULE HistGen -------------------------------
(* TLC as the generator of merge histories: every sequence of kernel indices up to MaxLen is a reachable state *)
EXTENDS Integers, Sequences, TLC
CONSTANTS NK, MaxLen
VARIABLE h
Init == h = <<>>
Next == Len(h) < MaxLen /\ \E k \in 1..NK : h' = Append(h, k)
Spec == Init /\ [][Next]_h
Emit == PrintT(<<"HISTORY", h>>)
=============================================================================
