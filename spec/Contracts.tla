----------------------------- MODULE Contracts -----------------------------
(***************************************************************************)
(* Pass contracts: what must relate the run of a pass's input (machine A)  *)
(* and the run of its output (machine B) from the same run-time inputs.    *)
(* Each contract returns "ok" or the name of the first clause that fails.  *)
(***************************************************************************)
EXTENDS Integers, Sequences, Accfg, Csr, Bitwise, CsrLayout, Layout

IsPrefixLen(a, b) == Len(a) <= Len(b)

(* ---- accfg observation (C01 dedup, C06 overlap, C07 tracing) ---- *)
AccfgEventOK(ea, eb) ==
  /\ ea.k = eb.k
  /\ CASE ea.k = "launch" -> /\ ea.acc = eb.acc /\ ea.names = eb.names /\ ea.vals = eb.vals
                             /\ SnapRefines(ea.snap, eb.snap)
       [] ea.k = "await" -> ea.acc = eb.acc
       [] ea.k = "op" -> ea.n = eb.n /\ ea.s = eb.s /\ ea.vals = eb.vals
       [] ea.k = "ret" -> TRUE
       [] OTHER -> ea = eb

FirstBad(la, lb, Rel(_, _)) ==
  LET n == IF Len(la) < Len(lb) THEN Len(la) ELSE Len(lb)
      bad == {i \in 1..n : ~Rel(la[i], lb[i])} IN
  IF bad = {} THEN 0 ELSE CHOOSE i \in bad : \A j \in bad : i <= j

AccfgObs(a, b) ==
  IF b.fault # "none" THEN "B.fault:" \o b.fault
  ELSE IF FirstBad(a.log, b.log, AccfgEventOK) # 0 THEN "LaunchObservation"
  ELSE IF Len(a.log) # Len(b.log) THEN "EventCount"
  ELSE "ok"

(* ---- CSR lowering (C04) ---- *)
CsrLowering(c, a, b) ==
  IF b.fault # "none" THEN "B.fault:" \o b.fault
  ELSE IF ~NoStateLeft(c.B) THEN "NoStateLeft"
  ELSE MatchCsr(c.accdecl, a.log, 1, b.log, 1)

(* ---- C04, an accelerator-specific launch: gemmx with per-channel rescale parameters for more output channels than the array is wide.
   The launch becomes: M and temporal_loop_bound := m / groups; one launch of the streamers; then for every group of n output channels
   the shift words (four 8-bit shifts per register, channel 4j in the low byte) and the n multipliers of that group, one launch of the
   array and an await - every write to the address the accelerator declares for that field, in this order, and every poll on the declared
   barrier register ---- *)
GemmxLaunch(c, b) ==
  LET x == c.gl
      w == SelectSeq(b.log, LAMBDA e : e.k = "w")
      nsh == Len(x.ashift)
      Sh(i, q) == IF q < x.n THEN x.shifts[i * x.n + q + 1] ELSE 0
      ShiftWord(i, j) == Sh(i, 4 * j) + 256 * Sh(i, 4 * j + 1) + 65536 * Sh(i, 4 * j + 2) + 16777216 * Sh(i, 4 * j + 3)
      GroupWrites(i) == [j \in 1..nsh |-> <<x.ashift[j], ShiftWord(i, j - 1)>>]
                        \o [cc \in 1..x.n |-> <<x.amult[cc], x.mults[i * x.n + cc]>>] \o << <<x.aLG, x.lg>> >>
      RECURSIVE AllGroups(_)
      AllGroups(i) == IF i >= x.groups THEN <<>> ELSE GroupWrites(i) \o AllGroups(i + 1)
      exp == << <<x.aM, x.m \div x.groups>>, <<x.aTLB, x.m \div x.groups>>, <<x.aLS, x.ls>> >> \o AllGroups(0) IN
  IF b.fault # "none" THEN "B.fault:" \o b.fault
  ELSE IF ~NoStateLeft(c.B) THEN "NoStateLeft"
  ELSE IF [k \in DOMAIN w |-> <<w[k].addr, w[k].v>>] # exp THEN "PerGroupWrites"
  ELSE IF \E k \in DOMAIN b.log : b.log[k].k = "r" /\ b.log[k].addr # x.barrier THEN "PollsDeclaredBarrier"
  ELSE IF \E k \in DOMAIN b.log : b.log[k].k = "w" /\ b.log[k].addr = x.aLG /\ ~(k < Len(b.log) /\ b.log[k + 1].k = "r")
       THEN "AwaitAfterEveryGroupLaunch"
  ELSE "ok"

(* ---- same side effects (C17 loop restructuring) ---- *)
EffectEventOK(ea, eb) ==
  /\ ea.k = eb.k
  /\ CASE ea.k = "op" -> ea.n = eb.n /\ ea.s = eb.s /\ ea.vals = eb.vals
       [] ea.k = "ret" -> ea.vals = eb.vals
       [] OTHER -> AccfgEventOK(ea, eb)
SameEffects(a, b) ==
  IF b.fault # "none" THEN "B.fault:" \o b.fault
  ELSE IF FirstBad(a.log, b.log, EffectEventOK) # 0 THEN "EffectSequence"
  ELSE IF Len(a.log) # Len(b.log) THEN "EffectCount"
  ELSE "ok"

(* ---- pack_bitlist (C19): the emitted shift/or tree computes OR_i (v_i << off_i) in w bits ---- *)
RECURSIVE OrAll(_, _, _, _)
OrAll(vals, offs, w, k) ==
  IF k > Len(offs) THEN 0
  ELSE ((((vals[k] % (2^w)) * (2^offs[k])) % (2^w)) | OrAll(vals, offs, w, k + 1))
ToSigned(u, w) == IF u >= 2^(w - 1) THEN u - 2^w ELSE u
PackBits(c, a, b) ==
  IF b.fault # "none" THEN "B.fault:" \o b.fault
  ELSE IF Len(b.log) < 1 \/ b.log[1].k # "op" THEN "NoPackedValue"
  ELSE LET ev == b.log[1]  ins == SubSeq(ev.vals, 2, Len(ev.vals)) IN
       IF ev.vals[1] = ToSigned(OrAll(ins, c.offs, c.w, 1), c.w) THEN "ok" ELSE "PackedWord"

(* ---- C08: generated configuration values line up with field names ---- *)
(* the observed event carries (pointer args ..., then one value per setup operand) *)
RegFile(c, a, b) ==
  IF b.fault # "none" THEN "B.fault:" \o b.fault
  ELSE IF Len(b.log) < 1 \/ b.log[1].k # "op" THEN "NoSetupObserved"
  ELSE LET np == Len(c.cfg)
           ev == b.log[1]
           ptr == [i \in 1..np |-> ev.vals[i]]
           got == SubSeq(ev.vals, np + 1, Len(ev.vals))
           exp == IF ("xdma" \in DOMAIN c /\ c.xdma = 1) THEN XdmaRegs(c.cfg, c.pats, ptr, c.zeros) ELSE RegularRegs(c.cfg, c.pats, ptr, c.zeros)
           ns == Len(exp)
           tail == c.tail     \* sequence of [name, mode ("eq" | "any" | "ge"), v]
           allnames == Names(exp) \o [k \in DOMAIN tail |-> tail[k].name] IN
       IF c.declared # allnames THEN "DeclaredFieldNames"
       ELSE IF Len(got) # Len(c.declared) THEN "OneValuePerField"
       ELSE IF c.setupnames # c.declared THEN "SetupFieldOrder"
       ELSE IF \E k \in 1..ns : got[k] # exp[k][2] THEN "StreamerFieldValues"
       ELSE IF \E k \in DOMAIN tail : \/ (tail[k].mode = "eq" /\ got[ns + k] # tail[k].v)
                                      \/ (tail[k].mode = "ge" /\ got[ns + k] < tail[k].v)
            THEN "KernelFieldValues:" \o tail[CHOOSE k \in DOMAIN tail : \/ (tail[k].mode = "eq" /\ got[ns + k] # tail[k].v)
                                                                         \/ (tail[k].mode = "ge" /\ got[ns + k] < tail[k].v)].name
       ELSE IF c.knm > 0 /\ got[ns + 1] * got[ns + 2] * got[ns + 3] # c.knm THEN "LoopCountsVsStreamSteps"
       ELSE "ok"

(* ---- C05: DMA lowering of a copy ---- *)
(* source bytes are tagged with (their address + 1); every logical element must arrive at the address the
   destination layout assigns to it; transfers stay inside the two layout footprints *)
Footprint(d, w) == {d.base + Addr(d.L, idx) * w + k : idx \in Box(d.sizes), k \in 0..(w - 1)}
DmaCopy(c, orc, a, b) ==
  IF b.fault # "none" THEN "B.fault:" \o b.fault
  ELSE LET src == orc.desc[c.srcarg]  dst == orc.desc[c.dstarg]  w == c.w  box == Box(src.sizes) IN
    IF \E idx \in box, k \in 0..(w - 1) :
         b.mem[dst.base + Addr(dst.L, idx) * w + k + 1] # src.base + Addr(src.L, idx) * w + k + 1 THEN "ElementsDelivered"
    ELSE IF ~(b.rd \subseteq Footprint(src, w)) THEN "ReadsInsideSource"
    ELSE IF ~(b.wr \subseteq Footprint(dst, w)) THEN "WritesInsideDestination"
    ELSE "ok"

(* ---- C14: dispatch runs each operation on exactly the cores it belongs to ---- *)
(* xk: the kernels the xDMA streamer extensions declare, as <<kernel name, operand/result types>> *)
OpClass(e, xk) ==
  IF e.k # "op" THEN "all"
  ELSE IF e.n = "memref.copy" THEN "dm"
  ELSE IF e.n = "linalg.generic" THEN "compute"
  ELSE IF e.n \in {"dart.operation", "dart.schedule", "dart.access_pattern", "snax_stream.streaming_region"}
       THEN (IF Len(e.s) >= 4 /\ e.s[2] = "snax_xdma" /\ (\E i \in DOMAIN xk : xk[i][1] = e.s[3] /\ xk[i][2] = e.s[4]) THEN "dm" ELSE "compute")
  ELSE "all"
RunsOn(e, core, ncores, xk) ==
  CASE OpClass(e, xk) = "dm" -> core = ncores - 1
    [] OpClass(e, xk) = "compute" -> core = 0
    [] OTHER -> TRUE
RECURSIVE FilterLog(_, _, _, _, _)
FilterLog(log, core, ncores, xk, k) ==
  IF k > Len(log) THEN <<>>
  ELSE (IF RunsOn(log[k], core, ncores, xk) THEN <<log[k]>> ELSE <<>>) \o FilterLog(log, core, ncores, xk, k + 1)
Dispatch(c, orc, a, b) ==
  IF b.fault # "none" THEN "B.fault:" \o b.fault
  ELSE LET want == FilterLog(a.log, orc.core, c.ncores, c.xk, 1) IN
       IF FirstBad(want, b.log, EffectEventOK) # 0 THEN "CoreExecutesFilteredProgram"
       ELSE IF Len(want) # Len(b.log) THEN "CoreExecutesFilteredProgram:count"
       ELSE "ok"

ContOf2(cont, v) == IF v \in DOMAIN cont THEN cont[v] ELSE v

(* ---- C13: cross-core dependencies are separated by a cluster barrier (trace form) ---- *)
IsBarrier(e) == e.k = "op" /\ e.n = "snax.cluster_sync_op"
RECURSIVE RootOf(_, _)
RootOf(uf, v) ==    \* views alias the buffer they are taken from
  IF v > 1000000 /\ v - 1000000 <= Len(uf) /\ uf[v - 1000000][1][1] = "subview" THEN RootOf(uf, uf[v - 1000000][1][3][1]) ELSE v
Roots(uf, vals) == {RootOf(uf, vals[i]) : i \in DOMAIN vals}
NIns(e) == IF "iv" \in DOMAIN e /\ Len(e.iv) >= 1 THEN e.iv[1] ELSE Len(e.vals)
Reads(uf, e) ==
  IF e.k # "op" THEN {}
  ELSE IF e.n = "memref.copy" THEN Roots(uf, SubSeq(e.vals, 1, 1))
  ELSE IF e.n = "memref.dealloc" THEN {}
  ELSE IF e.n \in {"linalg.generic", "dart.operation", "dart.schedule", "dart.access_pattern", "snax_stream.streaming_region"}
       THEN Roots(uf, SubSeq(e.vals, 1, NIns(e)))
  ELSE Roots(uf, e.vals)
Writes(uf, e) ==
  IF e.k # "op" THEN {}
  ELSE IF e.n = "memref.copy" THEN Roots(uf, SubSeq(e.vals, 2, 2))
  ELSE IF e.n = "memref.dealloc" THEN Roots(uf, e.vals)
  ELSE IF e.n \in {"linalg.generic", "dart.operation", "dart.schedule", "dart.access_pattern", "snax_stream.streaming_region"}
       THEN Roots(uf, SubSeq(e.vals, NIns(e) + 1, Len(e.vals)))
  ELSE {}
Writes2(uf, e) ==    \* written cells themselves (not their roots)
  IF e.k # "op" THEN {}
  ELSE IF e.n = "memref.copy" THEN {e.vals[2]}
  ELSE IF e.n = "linalg.generic" THEN {e.vals[i] : i \in (NIns(e) + 1)..Len(e.vals)}
  ELSE {}
Conflict(uf, e1, e2) ==
  \/ Writes(uf, e1) \cap (Reads(uf, e2) \cup Writes(uf, e2)) # {}
  \/ Reads(uf, e1) \cap Writes(uf, e2) # {}
(* memrefs only: integer operands (indices) are not buffers *)
BufferConflict(uf, e1, e2, isbuf(_)) == \E x \in (Writes(uf, e1) \cap (Reads(uf, e2) \cup Writes(uf, e2))) \cup (Reads(uf, e1) \cap Writes(uf, e2)) : isbuf(x)

TraceNoRace(log, uf, xk) ==
  \A i, j \in DOMAIN log :
    (i < j /\ OpClass(log[i], xk) \in {"dm", "compute"} /\ OpClass(log[j], xk) # OpClass(log[i], xk)
       /\ BufferConflict(uf, log[i], log[j], LAMBDA x : x >= 900000))
    => \E k \in (i + 1)..(j - 1) : IsBarrier(log[k])

RECURSIVE DropBarriers(_, _)
DropBarriers(log, k) == IF k > Len(log) THEN <<>> ELSE (IF IsBarrier(log[k]) THEN <<>> ELSE <<log[k]>>) \o DropBarriers(log, k + 1)

Barriers(c, orc, a, b) ==
  IF b.fault # "none" THEN "B.fault:" \o b.fault
  ELSE LET la == DropBarriers(a.log, 1)  lb == DropBarriers(b.log, 1) IN
       IF Len(la) # Len(lb) \/ FirstBad(la, lb, EffectEventOK) # 0 THEN "OnlyBarriersInserted"
       ELSE IF ~TraceNoRace(b.log, b.uf, c.xk) THEN "BarrierBetweenCrossCoreDependency"
       ELSE "ok"

(* ---- C15: software-pipelined double-buffered loop = sequential loop ---- *)
IsStageEvent(e) == e.k = "op" /\ e.n \in {"memref.copy", "linalg.generic"}
IsArgCell(uf, v) == LET r == RootOf(uf, v) IN r > 900000 /\ r < 1000000
ArgWrites(uf, e) == {x \in Writes2(uf, e) : IsArgCell(uf, x)}
StageObs(uf, e) == <<e.n, e.s[1], e.rt, ArgWrites(uf, e)>>
RECURSIVE StageSub(_, _, _, _)
StageSub(uf, log, tag, k) ==   \* observations of the stage operation `tag`, in execution order
  IF k > Len(log) THEN <<>>
  ELSE (IF IsStageEvent(log[k]) /\ log[k].s[1] = tag THEN <<StageObs(uf, log[k])>> ELSE <<>>) \o StageSub(uf, log, tag, k + 1)
StageTags(log) == {log[k].s[1] : k \in {j \in DOMAIN log : IsStageEvent(log[j])}}

Pipelined(c, orc, a, b) ==
  IF b.fault # "none" THEN "B.fault:" \o b.fault
  ELSE IF StageTags(a.log) # StageTags(b.log) THEN "EveryStageOfEveryIterationOnce"
  ELSE IF \E t \in StageTags(a.log) : StageSub(b.uf, a.log, t, 1) # StageSub(b.uf, b.log, t, 1) THEN "EveryStageOfEveryIterationOnce"
  ELSE IF \E x \in DOMAIN a.cont : IsArgCell(b.uf, x) /\ ContOf2(b.cont, x) # a.cont[x] THEN "FinalBufferContents"
  ELSE IF \E x \in DOMAIN b.cont : IsArgCell(b.uf, x) /\ ContOf2(a.cont, x) # b.cont[x] THEN "FinalBufferContents"
  ELSE IF ~TraceNoRace(b.log, b.uf, c.xk) THEN "NoRaceBetweenBarriers"
  ELSE "ok"

(* ---- C18: kernel recognition / expansion preserves the scalar function ---- *)
SameScalar(c, orc, a, b) ==
  IF b.fault # "none" THEN "B.fault:" \o b.fault
  ELSE IF Len(a.log) = 0 \/ Len(b.log) = 0 THEN "NoYield"
  ELSE IF a.log[Len(a.log)].vals # b.log[Len(b.log)].vals THEN "SameScalarFunction"
  ELSE "ok"

(* ---- C11: allocations are big enough and never overlap while live ---- *)
RECURSIVE LevelsMax(_, _)
LevelsMax(levels, j) == IF j > Len(levels) THEN 0 ELSE (levels[j].b - 1) * levels[j].s + LevelsMax(levels, j + 1)
RECURSIVE DimsMax(_, _)
DimsMax(L, d) == IF d > Len(L.dims) THEN 0 ELSE LevelsMax(L.dims[d], 1) + DimsMax(L, d + 1)
NeedBytes(L, w) == (L.off + DimsMax(L, 1) + 1) * w     \* highest address the layout can touch, plus one element

AllocSize(c, orc, a, b) ==
  IF b.fault # "none" THEN "B.fault:" \o b.fault
  ELSE LET evs == {i \in DOMAIN b.log : b.log[i].k = "alloc"} IN
       IF evs = {} THEN "NoAllocation"
       ELSE IF \E i \in evs : b.log[i].size < NeedBytes(c.L, c.w) THEN "AllocationBigEnough"
       ELSE "ok"

AllocIdx(log) == {i \in DOMAIN log : log[i].k = "alloc"}
UsesInst(uf, e, inst) == e.k = "op" /\ \E j \in DOMAIN e.vals : RootOf(uf, e.vals[j]) = inst
LastUse(uf, log, i) ==
  LET us == {j \in DOMAIN log : j > i /\ UsesInst(uf, log[j], log[i].inst)} IN
  IF us = {} THEN i ELSE CHOOSE j \in us : \A j2 \in us : j2 <= j
Placement(c, orc, a, b) ==
  IF b.fault # "none" THEN "B.fault:" \o b.fault
  ELSE LET log == b.log  uf == b.uf  al == AllocIdx(log)
           P(i) == c.places[log[i].site] IN
    IF \E i \in al : log[i].site > Len(c.places) THEN "EveryAllocationPlaced"
    ELSE IF \E i \in al : ~(P(i).addr >= P(i).start /\ P(i).addr + P(i).size <= P(i).start + P(i).capacity) THEN "InsideMemoryWindow"
    ELSE IF \E i \in al : P(i).align > 0 /\ P(i).addr % P(i).align # 0 THEN "Aligned"
    ELSE IF \E i \in al : P(i).size < log[i].size THEN "PlacedSizeCoversRequest"
    ELSE IF \E i, j \in al :
              /\ i < j /\ P(i).mem = P(j).mem
              /\ LastUse(uf, log, i) >= j                                  \* lifetimes overlap (i is still used after j is allocated)
              /\ ~(P(i).addr + P(i).size <= P(j).addr \/ P(j).addr + P(j).size <= P(i).addr)
         THEN "LiveBuffersDisjoint"
    ELSE "ok"

(* ---- C12: materialised casts deliver the right data to every consumer ---- *)
IsAccelEvent(e) == e.k = "op" /\ e.n = "linalg.generic"
RECURSIVE AccelObs(_, _)
AccelObs(log, k) ==    \* what each accelerator operation observed, in program order
  IF k > Len(log) THEN <<>>
  ELSE (IF IsAccelEvent(log[k]) THEN << <<log[k].s[1], log[k].rt>> >> ELSE <<>>) \o AccelObs(log, k + 1)
(* what the buffers a function returns hold when it returns *)
RetConts(r) == LET rs == {k \in DOMAIN r.log : r.log[k].k = "ret"} IN
               IF rs = {} THEN <<>> ELSE LET e == r.log[CHOOSE k \in rs : TRUE] IN [j \in DOMAIN e.vals |-> ContOf2(r.cont, e.vals[j])]
(* run-time shape of a buffer value, where the machine knows it: an allocation (its evaluated sizes) or an argument with a descriptor *)
ShapeOfVal(uf, orc, v) ==
  IF v > 1000000 /\ v - 1000000 <= Len(uf) /\ uf[v - 1000000][1][1] = "alloc"
  THEN LET s == uf[v - 1000000][1][3] IN SubSeq(s, 1, Len(s) - 1)          \* (the last entry numbers the allocation: P.allocsite = 1)
  ELSE IF v > 900000 /\ v <= 900000 + Len(orc.desc) /\ orc.desc[v - 900000].valid = 1 THEN orc.desc[v - 900000].sizes
  ELSE <<>>
CopyShapesAgree(uf, orc, log) ==
  \A k \in DOMAIN log : (log[k].k = "op" /\ log[k].n = "memref.copy") =>
     LET x == ShapeOfVal(uf, orc, log[k].vals[1])  y == ShapeOfVal(uf, orc, log[k].vals[2]) IN x = <<>> \/ y = <<>> \/ x = y

Casts(c, orc, a, b) ==
  IF b.fault # "none" THEN "B.fault:" \o b.fault
  ELSE IF AccelObs(a.log, 1) # AccelObs(b.log, 1) THEN "ConsumersReadOriginalData"
  ELSE IF \E x \in DOMAIN a.cont : IsArgCell(b.uf, x) /\ ContOf2(b.cont, x) # a.cont[x] THEN "WritersCopiedBack"
  ELSE IF \E x \in DOMAIN b.cont : IsArgCell(b.uf, x) /\ ContOf2(a.cont, x) # b.cont[x] THEN "WritersCopiedBack"
  ELSE IF c.needl1 = 1 /\ \E k \in DOMAIN b.log : IsAccelEvent(b.log[k]) /\ \E j \in DOMAIN b.log[k].ams : b.log[k].ams[j] # "L1"
       THEN "AcceleratorOperandsInL1"
  ELSE IF RetConts(a) # RetConts(b) THEN "ReturnedBuffersHoldSameData"
  ELSE IF ~CopyShapesAgree(b.uf, orc, b.log) THEN "CopiesBetweenEqualShapes"
  ELSE "ok"

(* ---- C10: the IR the compiler generates from a layout (bounds, steps, subview pointers) means the same as the layout ---- *)
(* the observation is the operand list of the single "test.op" of the function.
   subviewptr: pointer of a subview of a TSL buffer = base + (offset-free address of the subview's first element) * element size
   boundstep : operands = all bounds in (dim, level) order followed by all steps: static entries are kept (steps in bytes when asked),
               the bounds of a dimension multiply to its run-time size, and the resolved layout is one-to-one on the run-time box *)
TestOpEvents(log) == {k \in DOMAIN log : log[k].k = "op" /\ log[k].n = "test.op"}
NLevels(L) == LET RECURSIVE F(_) F(d) == IF d > Len(L.dims) THEN 0 ELSE Len(L.dims[d]) + F(d + 1) IN F(1)
LevelPos(L, d, j) == LET RECURSIVE F(_) F(x) == IF x >= d THEN 0 ELSE Len(L.dims[x]) + F(x + 1) IN F(1) + j
TslOps(c, orc, a, b) ==
  IF b.fault # "none" THEN "B.fault:" \o b.fault
  ELSE IF Cardinality(TestOpEvents(b.log)) # 1 THEN "NoObservation"
  ELSE LET e == b.log[CHOOSE k \in TestOpEvents(b.log) : TRUE]  d1 == orc.desc[1] IN
    IF c.what = "subviewptr" THEN
      LET offs == [d \in DOMAIN c.offspec |-> IF c.offspec[d].arg > 0 THEN orc.args[c.offspec[d].arg] ELSE c.offspec[d].const] IN
      IF e.vals[1] = d1.base + Addr0(c.L, offs) * c.w THEN "ok" ELSE "SubviewPointer"
    ELSE
      LET n == NLevels(c.L)
          Lr == [dims |-> [d \in DOMAIN c.L.dims |-> [j \in DOMAIN c.L.dims[d] |->
                     [b |-> e.vals[LevelPos(c.L, d, j)], s |-> e.vals[n + LevelPos(c.L, d, j)]]]], off |-> 0]
      IN
      IF Len(e.vals) # 2 * n THEN "OneBoundAndStepPerLevel"
      ELSE IF \E d \in DOMAIN c.L.dims : \E j \in DOMAIN c.L.dims[d] : c.L.dims[d][j].b # -1 /\ Lr.dims[d][j].b # c.L.dims[d][j].b THEN "StaticBoundKept"
      ELSE IF \E d \in DOMAIN c.L.dims : \E j \in DOMAIN c.L.dims[d] : c.L.dims[d][j].s # -1 /\ Lr.dims[d][j].s # c.L.dims[d][j].s * c.w THEN "StaticStepKept"
      ELSE IF \E d \in DOMAIN c.L.dims : ProdFrom(Lr.dims[d], 1) # d1.sizes[d] THEN "BoundsCoverRuntimeShape"
      ELSE IF c.inj = 1 /\ ~Injective(Lr) THEN "ResolvedLayoutOneToOne"
      ELSE "ok"

(* ---- beyond the list: accfg-insert-resets ---- *)
(* no launch observes different registers because of an inserted reset (a reset makes the registers unknown), and when the function
   returns no accelerator is left holding a live configuration state: every chain of states ends in a reset on every path *)
Resets(c, orc, a, b) ==
  IF AccfgObs(a, b) # "ok" THEN AccfgObs(a, b)
  ELSE IF c.allpaths = 1 /\ \E acc \in DOMAIN b.cur : b.cur[acc] # 0 THEN "EveryStateChainEndsInReset"
  ELSE "ok"

(* ---- beyond the list: snax-to-func / snax-lower-mcycle are event renamings ---- *)
(* every cluster barrier becomes exactly one call of snax_cluster_hw_barrier, every snax.clear_l1 one call of snax_clear_l1, every
   cycle-counter read one `csrr zero, mcycle`; deallocations disappear; everything else happens as before, in the same order *)
LowName(e) ==
  IF e.k # "op" THEN <<e.k, "", <<>>>>
  ELSE IF e.n = "snax.cluster_sync_op" \/ (e.n = "func.call" /\ Len(e.s) >= 1 /\ e.s[1] = "snax_cluster_hw_barrier") THEN <<"op", "barrier", <<>>>>
  ELSE IF e.n = "snax.clear_l1" \/ (e.n = "func.call" /\ Len(e.s) >= 1 /\ e.s[1] = "snax_clear_l1") THEN <<"op", "clear_l1", <<>>>>
  ELSE IF e.n = "snax.mcycle" \/ (e.k = "op" /\ e.n = "llvm.inline_asm") THEN <<"op", "mcycle", <<>>>>
  ELSE <<"op", e.n, e.vals>>
RECURSIVE LowSeq(_, _, _)
LowSeq(log, k, dropdealloc) ==
  IF k > Len(log) THEN <<>>
  ELSE (IF (dropdealloc /\ log[k].k = "op" /\ log[k].n = "memref.dealloc") \/ log[k].k \notin {"op"} THEN <<>> ELSE <<LowName(log[k])>>)
       \o LowSeq(log, k + 1, dropdealloc)
Lowered(c, orc, a, b) ==
  IF b.fault # "none" THEN "B.fault:" \o b.fault
  ELSE IF \E k \in DOMAIN b.log : b.log[k].k = "op" /\ b.log[k].n \in {"snax.cluster_sync_op", "snax.clear_l1", "snax.mcycle", "memref.dealloc"}
       THEN "NothingLeftToLower"
  ELSE IF LowSeq(a.log, 1, TRUE) # LowSeq(b.log, 1, FALSE) THEN "SameEventsAfterRenaming"
  ELSE "ok"

Judge(contract, c, orc, a, b) ==
  IF a.fault # "none" THEN "skipA:" \o a.fault
  ELSE CASE contract \in {"dedup", "overlap", "trace"} -> AccfgObs(a, b)
         [] contract = "csr" -> CsrLowering(c, a, b)
         [] contract = "effects" -> SameEffects(a, b)
         [] contract = "packbits" -> PackBits(c, a, b)
         [] contract = "regfile" -> RegFile(c, a, b)
         [] contract = "dma" -> DmaCopy(c, orc, a, b)
         [] contract = "dispatch" -> Dispatch(c, orc, a, b)
         [] contract = "barriers" -> Barriers(c, orc, a, b)
         [] contract = "pipeline" -> Pipelined(c, orc, a, b)
         [] contract = "scalar" -> SameScalar(c, orc, a, b)
         [] contract = "allocsize" -> AllocSize(c, orc, a, b)
         [] contract = "placement" -> Placement(c, orc, a, b)
         [] contract = "gemmxlaunch" -> GemmxLaunch(c, b)
         [] contract = "casts" -> Casts(c, orc, a, b)
         [] contract = "tslops" -> TslOps(c, orc, a, b)
         [] contract = "resets" -> Resets(c, orc, a, b)
         [] contract = "lowered" -> Lowered(c, orc, a, b)
         [] OTHER -> "machinery:unknown-contract"
=============================================================================
