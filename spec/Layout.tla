------------------------------ MODULE Layout ------------------------------
(***************************************************************************)
(* The single meaning of a tiled-strided layout (TSL).                     *)
(*   L = [dims |-> Seq(Seq([b |-> bound, s |-> step])), off |-> offset]    *)
(* dims[d] lists the tile levels of dimension d, outermost first.  A       *)
(* logical index i_d is decomposed in mixed radix by the tile bounds; the  *)
(* address is off + SUM digit * step.  Dynamic entries are -1.             *)
(***************************************************************************)
EXTENDS Integers, Sequences, FiniteSets

RECURSIVE ProdFrom(_, _)
ProdFrom(levels, j) == IF j > Len(levels) THEN 1 ELSE levels[j].b * ProdFrom(levels, j + 1)

Digit(levels, j, i) ==
  LET inner == ProdFrom(levels, j + 1) IN
  IF j = 1 THEN i \div inner ELSE (i \div inner) % levels[j].b

RECURSIVE DimAddr(_, _, _)
DimAddr(levels, j, i) == IF j > Len(levels) THEN 0 ELSE Digit(levels, j, i) * levels[j].s + DimAddr(levels, j + 1, i)

RECURSIVE Addr0From(_, _, _)
Addr0From(L, idx, d) == IF d > Len(L.dims) THEN 0 ELSE DimAddr(L.dims[d], 1, idx[d]) + Addr0From(L, idx, d + 1)
Addr0(L, idx) == Addr0From(L, idx, 1)          \* offset-free address
Addr(L, idx) == L.off + Addr0(L, idx)

Shape(L) == [d \in DOMAIN L.dims |-> ProdFrom(L.dims[d], 1)]

RECURSIVE BoxSeq(_, _)
(* all index tuples of a box, as a set of sequences *)
BoxSeq(shape, d) == IF d > Len(shape) THEN {<<>>}
                    ELSE {<<i>> \o t : i \in 0..(shape[d] - 1), t \in BoxSeq(shape, d + 1)}
Box(shape) == BoxSeq(shape, 1)
RECURSIVE Box0(_, _, _)
Box0(nd, lo, hi) == IF nd = 0 THEN {<<>>} ELSE {<<i>> \o t : i \in lo..hi, t \in Box0(nd - 1, lo, hi)}

RECURSIVE Prod(_, _)
Prod(s, k) == IF k > Len(s) THEN 1 ELSE s[k] * Prod(s, k + 1)

AddrSet(L) == {Addr0(L, i) : i \in Box(Shape(L))}
Injective(L) == Cardinality(AddrSet(L)) = Prod(Shape(L), 1)
SelfOverlaps(L) == ~Injective(L)
MaxAddr(L) == CHOOSE a \in AddrSet(L) : \A b \in AddrSet(L) : b <= a
IsDense(L) == Injective(L) /\ MaxAddr(L) = Prod(Shape(L), 1) - 1

(* enumeration of all addresses in digit order: (dim 1 level 1), (dim 1 level 2), ..., last varies fastest *)
FlatLevels(L) == LET RECURSIVE F(_) F(d) == IF d > Len(L.dims) THEN <<>> ELSE L.dims[d] \o F(d + 1) IN F(1)
RECURSIVE EnumFrom(_, _)
EnumFrom(levels, j) ==
  IF j > Len(levels) THEN <<0>>
  ELSE LET rest == EnumFrom(levels, j + 1) IN
       LET RECURSIVE G(_) G(k) == IF k = levels[j].b THEN <<>> ELSE [x \in 1..Len(rest) |-> k * levels[j].s + rest[x]] \o G(k + 1) IN G(0)
AllValues(L) == EnumFrom(FlatLevels(L), 1)

(* building from plain strides and tile bounds *)
RECURSIVE StepsFrom(_, _, _)
StepsFrom(stride, bounds, j) ==   \* step of level j = stride * product of the bounds of the inner levels
  IF j > Len(bounds) THEN <<>>
  ELSE LET RECURSIVE P(_) P(k) == IF k > Len(bounds) THEN 1 ELSE bounds[k] * P(k + 1) IN
       <<[b |-> bounds[j], s |-> stride * P(j + 1)]>> \o StepsFrom(stride, bounds, j + 1)
FromStrides(strides, tilebounds, off) ==
  [dims |-> [d \in DOMAIN strides |-> StepsFrom(strides[d], tilebounds[d], 1)], off |-> off]

(* a list of strides denotes one contiguous range starting at stride `start` *)
RECURSIVE IsChain(_, _, _)
IsChain(blk, k, cur) == IF k > Len(blk) THEN TRUE ELSE blk[k].s = cur /\ IsChain(blk, k + 1, cur * blk[k].b)
OccursIn(L, st) == \E d \in DOMAIN L.dims : \E j \in DOMAIN L.dims[d] : L.dims[d][j].b = st.b /\ L.dims[d][j].s = st.s
SameSlot(L1, L2, st) == \E d \in DOMAIN L1.dims : \E j \in DOMAIN L1.dims[d] :
   /\ L1.dims[d][j].b = st.b /\ L1.dims[d][j].s = st.s
   /\ d \in DOMAIN L2.dims /\ j \in DOMAIN L2.dims[d] /\ L2.dims[d][j].b = st.b /\ L2.dims[d][j].s = st.s
=============================================================================
