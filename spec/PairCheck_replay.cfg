SPECIFICATION Spec
INVARIANT NoViolation
CHECK_DEADLOCK FALSE
