----------------------------- MODULE Template -----------------------------
(***************************************************************************)
(* Accelerator templates.  A schedule fits a template when, per operand,   *)
(* its innermost dims span the same index subspace (row space over Q) as   *)
(* the template pattern and do not exceed the template's bounds (C16).     *)
(* Rank is computed by fraction-free Gaussian elimination on integers.     *)
(***************************************************************************)
EXTENDS Integers, Sequences, FiniteSets, Schedule

IsZeroRow(r) == \A k \in DOMAIN r : r[k] = 0
NonZeroRows(rows) == LET RECURSIVE F(_) F(i) == IF i > Len(rows) THEN <<>> ELSE (IF IsZeroRow(rows[i]) THEN <<>> ELSE <<rows[i]>>) \o F(i + 1) IN F(1)

RECURSIVE Rank(_)
Rank(rows0) ==
  LET rows == NonZeroRows(rows0) IN
  IF Len(rows) = 0 THEN 0
  ELSE LET n == Len(rows[1])
           c == CHOOSE j \in 1..n : (\E i \in DOMAIN rows : rows[i][j] # 0) /\ \A j2 \in 1..(j - 1) : \A i \in DOMAIN rows : rows[i][j2] = 0
           p == CHOOSE i \in DOMAIN rows : rows[i][c] # 0 /\ \A i2 \in 1..(i - 1) : rows[i2][c] = 0
           piv == rows[p]
           others == [k \in 1..(Len(rows) - 1) |-> LET r == rows[IF k < p THEN k ELSE k + 1] IN [j \in 1..n |-> r[j] * piv[c] - piv[j] * r[c]]]
       IN 1 + Rank(others)

RowSpaceEq(M, N) == Rank(M) = Rank(N) /\ Rank(M \o N) = Rank(M)

(* TemplatePattern.matches(SchedulePattern): inner dims of the schedule pattern; broadcast: leading template rows dropped *)
PatMatches(tA, sA, tnd, snd) ==
  IF snd < tnd THEN FALSE
  ELSE LET s2 == [i \in DOMAIN sA |-> SubSeq(sA[i], snd - tnd + 1, snd)]
           drop == Len(tA) - Len(s2)
           t2 == IF drop > 0 THEN SubSeq(tA, drop + 1, Len(tA)) ELSE tA
       IN RowSpaceEq(t2, s2)

(* T = [bounds (0 = unbounded), pats]; S a schedule *)
Fits(T, S) ==
  /\ Len(T.pats) = Len(S.pats)
  /\ NumDims(S) >= Len(T.bounds)
  /\ \A o \in DOMAIN T.pats : PatMatches(T.pats[o].A, S.pats[o].A, Len(T.bounds), NumDims(S))
  /\ \A i \in 1..Len(T.bounds) : T.bounds[Len(T.bounds) - i + 1] > 0 => S.bounds[NumDims(S) - i + 1] <= T.bounds[Len(T.bounds) - i + 1]

(* constraints, as their docstrings define them; nt = number of template dims *)
OuterCols(S, nt) == NumDims(S) - nt
PureOutputStationary(S, nt) ==
  LET A == S.pats[Len(S.pats)].A  n == OuterCols(S, nt)
      par == {j \in 1..n : \E i \in DOMAIN A : A[i][j] # 0}
      red == (1..n) \ par IN
  par = {} \/ red = {} \/ (\A p \in par : \A r \in red : p < r)

MemoryFlexible(S, nt, sizes) ==
  IF NumDims(S) <= nt THEN TRUE
  ELSE \A o \in DOMAIN S.pats :
         LET A == S.pats[o].A  n == OuterCols(S, nt)  g == -((-8) \div sizes[o]) IN
         \E i \in DOMAIN A : (\A j \in 1..n : A[i][j] % g = 0) /\ (\E j \in (n + 1)..NumDims(S) : A[i][j] = 1)
=============================================================================
