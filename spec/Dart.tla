------------------------------- MODULE Dart -------------------------------
(***************************************************************************)
(* Tensor-level meaning of a function made of dart.operation ops, the      *)
(* streaming operations of snax-mlir before bufferisation.                 *)
(*                                                                         *)
(* A program is                                                            *)
(*   shapes : one shape per tensor value (function arguments first, then   *)
(*            tensor.empty values and operation results, in program order) *)
(*   nargs  : number of tensor arguments                                   *)
(*   ops    : sequence of operations                                       *)
(*              opnds  tensor ids, inputs first, the output operand last   *)
(*              pats   one integer affine map [A, b] per operand           *)
(*              nd     number of iteration dimensions                      *)
(*              gens   the dart.generic ops of the body: kernel name k,    *)
(*                     inputs a (stream argument "s" / result of an        *)
(*                     earlier generic "g" / scalar constant "c"), body    *)
(*                     b = which inputs the kernel op takes, in order      *)
(*              y      what the body yields                                *)
(*              res    id of the result tensor                             *)
(*   ret    : ids of the returned tensors                                  *)
(*                                                                         *)
(* Meaning of one operation: the iteration box is read off the operands    *)
(* (dimension d is as long as the operand axis it indexes alone); every    *)
(* point p of the box presents element pats[o](p) of operand o on stream   *)
(* o; a generic applies its kernel point-wise, an accumulating kernel      *)
(* (mac, qmac) sums its products over the fibre of the output element      *)
(* (all points writing the same element), starting from zero as the        *)
(* accelerators do; the output element holds what the body yields at the   *)
(* last point of its fibre.                                                *)
(***************************************************************************)
EXTENDS Integers, Sequences, FiniteSets, Schedule

FlatIx(shape, idx) ==
  LET RECURSIVE F(_, _) F(k, acc) == IF k > Len(shape) THEN acc ELSE F(k + 1, acc * shape[k] + idx[k]) IN F(1, 0) + 1
UnflatIx(shape, j) == [k \in DOMAIN shape |-> (j \div Prod(shape, k + 1)) % shape[k]]
LexLeq(a, b) == a = b \/ \E k \in DOMAIN a : a[k] < b[k] /\ \A j \in 1..(k - 1) : a[j] = b[j]

UnitRow(r, d) == \A k \in DOMAIN r : r[k] = (IF k = d THEN 1 ELSE 0)
(* operand axes that are indexed by dimension d alone *)
AxesOf(op, d) == {oi \in (DOMAIN op.pats) \X (1..8) :
                    oi[2] \in DOMAIN op.pats[oi[1]].A /\ UnitRow(op.pats[oi[1]].A[oi[2]], d) /\ op.pats[oi[1]].b[oi[2]] = 0}
DimLens(P, op, d) == {P.shapes[op.opnds[oi[1]]][oi[2]] : oi \in AxesOf(op, d)}
WellFormedOp(P, op) ==
  /\ Len(op.pats) = Len(op.opnds)
  /\ \A d \in 1..op.nd : Cardinality(DimLens(P, op, d)) = 1
  /\ \A o \in DOMAIN op.pats : Len(op.pats[o].A) = Len(P.shapes[op.opnds[o]])
Bounds(P, op) == [d \in 1..op.nd |-> CHOOSE n \in DimLens(P, op, d) : TRUE]
InShape(shape, idx) == \A k \in DOMAIN shape : idx[k] \in 0..(shape[k] - 1)

Accumulating(k) == k \in {"kernel.mac", "kernel.qmac"}
Kernel(k, x) ==
  CASE k = "kernel.add" -> x[1] + x[2]
    [] k = "kernel.mul" -> x[1] * x[2]
    [] k = "kernel.sub" -> x[1] - x[2]
    [] k = "kernel.mac" -> x[1] * x[2]
    [] k = "kernel.qmac" -> (x[1] - x[3]) * (x[2] - x[4])

(* value of generic g of operation op at iteration point p; tens[id] = flat row-major contents *)
RECURSIVE GenAt(_, _, _, _, _, _)
ArgAt(P, op, tens, box, a, p) ==
  CASE a.t = "s" -> tens[op.opnds[a.v]][FlatIx(P.shapes[op.opnds[a.v]], ApplyPat(op.pats[a.v], p))]
    [] a.t = "c" -> a.v
    [] a.t = "g" -> GenAt(P, op, tens, box, a.v, p)
GenAt(P, op, tens, box, g, p) ==
  LET G == op.gens[g]
      out == op.pats[Len(op.pats)]
      Term(q) == Kernel(G.k, [j \in DOMAIN G.b |-> ArgAt(P, op, tens, box, G.a[G.b[j]], q)])
      RECURSIVE SumOver(_)
      SumOver(Q) == IF Q = {} THEN 0 ELSE LET x == CHOOSE x \in Q : TRUE IN Term(x) + SumOver(Q \ {x}) IN
  IF Accumulating(G.k) THEN SumOver({q \in box : ApplyPat(out, q) = ApplyPat(out, p)}) ELSE Term(p)

(* all stream reads stay inside their operands *)
ReadsInside(P, op, box) == \A o \in DOMAIN op.pats : \A p \in box : InShape(P.shapes[op.opnds[o]], ApplyPat(op.pats[o], p))

OpResult(P, op, tens) ==
  LET box == Box(Bounds(P, op))
      out == op.pats[Len(op.pats)]
      shp == P.shapes[op.res]
      ValAt(o) == LET fib == {q \in box : ApplyPat(out, q) = o} IN
                  IF fib = {} THEN 0
                  ELSE LET last == CHOOSE q \in fib : \A r \in fib : LexLeq(r, q) IN ArgAt(P, op, tens, box, op.y, last) IN
  [j \in 1..Prod(shp, 1) |-> ValAt(UnflatIx(shp, j - 1))]

ProgOK(P) == \A k \in DOMAIN P.ops : WellFormedOp(P, P.ops[k]) /\ ReadsInside(P, P.ops[k], Box(Bounds(P, P.ops[k])))

(* run the program on the given argument contents (args[i] = flat contents of argument i); tensor.empty values hold zeros *)
RECURSIVE RunOps(_, _, _)
RunOps(P, k, tens) == IF k > Len(P.ops) THEN tens
                      ELSE RunOps(P, k + 1, [tens EXCEPT ![P.ops[k].res] = OpResult(P, P.ops[k], tens)])
Run(P, args) ==
  LET init == [i \in DOMAIN P.shapes |-> IF i <= P.nargs THEN args[i] ELSE [j \in 1..Prod(P.shapes[i], 1) |-> 0]]
      fin == RunOps(P, 1, init) IN
  [r \in DOMAIN P.ret |-> fin[P.ret[r]]]
=============================================================================
