SPECIFICATION Spec
CONSTANTS
  MaxDims = 3
  MaxOps = 3
  Entries <- EntBig
  Bounds = {1, 2, 3, 4, 6, 8}
  TileFactors = {2, 3, 4}
  MaxDepth = 5
  RowsSet = {2}
  Sim = TRUE
INVARIANT IterSpacePreserved
INVARIANT Emit
CHECK_DEADLOCK FALSE
