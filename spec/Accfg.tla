------------------------------- MODULE Accfg -------------------------------
(***************************************************************************)
(* Accelerator configuration state: one register file per accelerator,     *)
(* regs \in [ {<<acc, field>>} -> [def : BOOLEAN, v : Int] ].              *)
(* A setup writes the listed fields; a launch observes the file; an op     *)
(* with accfg effects (opaque call) or a reset makes contents unknown.     *)
(***************************************************************************)
EXTENDS Integers, Sequences

SetupWrite(regs, acc, names, vals) ==
  [key \in DOMAIN regs |->
     IF key[1] = acc /\ \E k \in DOMAIN names : names[k] = key[2]
     THEN [def |-> TRUE,
           v |-> vals[CHOOSE k \in DOMAIN names : names[k] = key[2]
                          /\ \A k2 \in DOMAIN names : names[k2] = key[2] => k2 <= k]]
     ELSE regs[key]]

HavocAll(regs) == [key \in DOMAIN regs |-> [def |-> FALSE, v |-> 0]]
HavocAcc(regs, acc) == [key \in DOMAIN regs |-> IF key[1] = acc THEN [def |-> FALSE, v |-> 0] ELSE regs[key]]

(* what a launch of acc observes *)
Snapshot(regs, acc) == [key \in {k \in DOMAIN regs : k[1] = acc} |-> regs[key]]

(* "every field the original had written holds the same value" *)
SnapRefines(orig, new) ==
  \A key \in DOMAIN orig : orig[key].def => (key \in DOMAIN new /\ new[key].def /\ new[key].v = orig[key].v)
=============================================================================
