------------------------------ MODULE Affine ------------------------------
(* Affine expression trees as exported from xDSL AffineExpr objects:        *)
(*   [k |-> "dim", v |-> i]  [k |-> "sym", v |-> i]  [k |-> "const", v |-> c]  *)
(*   [k |-> "add"|"mul"|"floordiv"|"mod"|"ceildiv", l |-> e1, r |-> e2]     *)
(* floordiv / mod have the MLIR meaning (floor division, non-negative       *)
(* remainder for positive divisors) = TLA+ \div and %.                      *)
EXTENDS Integers, Sequences

RECURSIVE AffDefined(_, _)
AffDefined(e, pt) ==
  CASE e.k \in {"dim", "sym", "const"} -> TRUE
    [] OTHER -> AffDefined(e.l, pt) /\ AffDefined(e.r, pt)

RECURSIVE AffEval(_, _)
AffEval(e, pt) ==
  CASE e.k = "dim" -> pt[e.v + 1]
    [] e.k = "const" -> e.v
    [] e.k = "add" -> AffEval(e.l, pt) + AffEval(e.r, pt)
    [] e.k = "mul" -> AffEval(e.l, pt) * AffEval(e.r, pt)
    [] e.k = "floordiv" -> AffEval(e.l, pt) \div AffEval(e.r, pt)
    [] e.k = "mod" -> AffEval(e.l, pt) % AffEval(e.r, pt)
    [] e.k = "ceildiv" -> -((-AffEval(e.l, pt)) \div AffEval(e.r, pt))
    [] OTHER -> 0

(* divisors must be positive at the evaluation point *)
RECURSIVE AffSafe(_, _)
AffSafe(e, pt) ==
  CASE e.k \in {"dim", "sym", "const"} -> TRUE
    [] e.k \in {"floordiv", "mod", "ceildiv"} -> AffSafe(e.l, pt) /\ AffSafe(e.r, pt) /\ AffEval(e.r, pt) > 0
    [] OTHER -> AffSafe(e.l, pt) /\ AffSafe(e.r, pt)
=============================================================================
