SPECIFICATION Spec
CONSTANTS
  MaxLen = 3
  Bufs = {1, 2}
  RequireOK = TRUE
INVARIANT NoRaceState
INVARIANT SameBarrier
CHECK_DEADLOCK TRUE
