------------------------------ MODULE Cluster ------------------------------
(***************************************************************************)
(* Design-level model of a 2-core SNAX cluster (core 0 = compute, core 1 = *)
(* data mover) executing one sequential trace of operations:               *)
(*   dm ops run on core 1, compute ops on core 0, all-core ops and         *)
(*   barriers on both.  Operations are not atomic (Begin / End); a barrier *)
(*   releases when both cores have arrived.                                *)
(* It connects the two readings of C13: if in the sequential trace every   *)
(* single-core operation is separated by a barrier from every later        *)
(* conflicting operation of another class (TraceOK, the form checked on    *)
(* real pass output), then under EVERY interleaving no two conflicting     *)
(* operations are in flight together (NoRaceState), and no schedule        *)
(* deadlocks.                                                              *)
(***************************************************************************)
EXTENDS Integers, Sequences, FiniteSets, TLC

CONSTANTS MaxLen, Bufs, RequireOK

Classes == {"dm", "compute", "all"}
EventSet == [cls : Classes, r : SUBSET Bufs, w : SUBSET Bufs] \cup {[cls |-> "bar", r |-> {}, w |-> {}]}
Useful(e) == e.cls = "bar" \/ (Cardinality(e.r) + Cardinality(e.w) = 1)

VARIABLES trace, pos, inflight, arrived
vars == <<trace, pos, inflight, arrived>>
Cores == {0, 1}

RunsOn(e, c) == CASE e.cls = "dm" -> c = 1 [] e.cls = "compute" -> c = 0 [] OTHER -> TRUE
Conflict(e1, e2) == (e1.w \cap (e2.r \cup e2.w)) # {} \/ (e1.r \cap e2.w) # {}

TraceOK(t) ==
  \A i, j \in DOMAIN t :
    (i < j /\ t[i].cls \in {"dm", "compute"} /\ t[j].cls # "bar" /\ t[j].cls # t[i].cls /\ Conflict(t[i], t[j]))
      => \E k \in (i + 1)..(j - 1) : t[k].cls = "bar"

RECURSIVE SeqsUpTo(_)
SeqsUpTo(n) == IF n = 0 THEN {<<>>} ELSE LET s == SeqsUpTo(n - 1) IN s \cup {Append(x, e) : x \in {y \in s : Len(y) = n - 1}, e \in {e2 \in EventSet : Useful(e2)}}

Init ==
  /\ trace \in {t \in SeqsUpTo(MaxLen) : RequireOK => TraceOK(t)}
  /\ pos = [c \in Cores |-> 1]
  /\ inflight = [c \in Cores |-> 0]
  /\ arrived = [c \in Cores |-> FALSE]

(* next index >= k of an event that core c executes *)
RECURSIVE NextFor(_, _, _)
NextFor(t, c, k) == IF k > Len(t) THEN k ELSE IF RunsOn(t[k], c) THEN k ELSE NextFor(t, c, k + 1)
Cur(c) == NextFor(trace, c, pos[c])

Begin(c) ==
  /\ inflight[c] = 0 /\ ~arrived[c] /\ Cur(c) <= Len(trace) /\ trace[Cur(c)].cls # "bar"
  /\ inflight' = [inflight EXCEPT ![c] = Cur(c)]
  /\ pos' = [pos EXCEPT ![c] = Cur(c)]
  /\ UNCHANGED <<trace, arrived>>
End(c) ==
  /\ inflight[c] # 0
  /\ inflight' = [inflight EXCEPT ![c] = 0]
  /\ pos' = [pos EXCEPT ![c] = inflight[c] + 1]
  /\ UNCHANGED <<trace, arrived>>
Arrive(c) ==
  /\ inflight[c] = 0 /\ ~arrived[c] /\ Cur(c) <= Len(trace) /\ trace[Cur(c)].cls = "bar"
  /\ arrived' = [arrived EXCEPT ![c] = TRUE]
  /\ pos' = [pos EXCEPT ![c] = Cur(c)]
  /\ UNCHANGED <<trace, inflight>>
Release ==
  /\ \A c \in Cores : arrived[c]
  /\ arrived' = [c \in Cores |-> FALSE]
  /\ pos' = [c \in Cores |-> pos[c] + 1]
  /\ UNCHANGED <<trace, inflight>>
Finished == \A c \in Cores : inflight[c] = 0 /\ ~arrived[c] /\ Cur(c) > Len(trace)
Done == Finished /\ UNCHANGED vars

Next == (\E c \in Cores : Begin(c) \/ End(c) \/ Arrive(c)) \/ Release \/ Done
Spec == Init /\ [][Next]_vars

(* no two conflicting operations in flight on different cores, where the program-order earlier one is a single-core op *)
NoRaceState ==
  \A c, d \in Cores :
    (c # d /\ inflight[c] # 0 /\ inflight[d] # 0 /\ inflight[c] < inflight[d] /\ trace[inflight[c]].cls \in {"dm", "compute"})
      => ~Conflict(trace[inflight[c]], trace[inflight[d]])
(* the same barrier for both cores: they wait at the same trace position *)
SameBarrier == (\A c \in Cores : arrived[c]) => pos[0] = pos[1]
=============================================================================
