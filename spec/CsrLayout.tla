----------------------------- MODULE CsrLayout -----------------------------
(***************************************************************************)
(* The register file a streaming accelerator must be given, derived from   *)
(* the MEANING of its field names (C08).  cfg is the streamer              *)
(* configuration: a sequence of                                            *)
(*   [temp : Seq("n"|"i"|"r"), nspat, remap, mask, transpose, bcast]       *)
(* pats[i] = [ub, ts, ss] the stride pattern of streamer i, ptr[i] the     *)
(* value of its base pointer (ZeroAddr for a constant-zero operand).       *)
(* Expected is the sequence of <<name, value>> in declared order.          *)
(***************************************************************************)
EXTENDS Integers, Sequences, FiniteSets, TLC, Streamer

Letters == <<"a", "b", "c", "d", "e", "f", "g", "h">>
ZeroAddr == 268435520    \* 0x1000_0040

Pad(s, n, v) == [k \in 1..n |-> IF k <= Len(s) THEN s[k] ELSE v]
Bound(st, pat, d) ==
  LET ub == Pad(pat.ub, Len(st.temp), 1)  ts == Pad(pat.ts, Len(st.temp), 0) IN
  IF st.temp[d] = "r" /\ ts[d] = 0 /\ ub[d] > 1 THEN 1 ELSE ub[d]

StreamerRegs(i, st, pat, p, zero) ==
  LET l == Letters[i]  nt == Len(st.temp)  ts == Pad(pat.ts, nt, 0) IN
  << <<l \o "_ptr_low", IF zero THEN ZeroAddr ELSE p>>, <<l \o "_ptr_high", 0>> >>
  \o [j \in 1..st.nspat |-> <<l \o "_sstride_" \o ToString(j - 1), pat.ss[j]>>]
  \o [d \in 1..nt |-> <<l \o "_bound_" \o ToString(d - 1), Bound(st, pat, d)>>]
  \o [d \in 1..nt |-> <<l \o "_tstride_" \o ToString(d - 1), ts[d]>>]
  \o (IF st.remap = 1 THEN << <<l \o "_address_remap", 0>> >> ELSE <<>>)
  \o (IF st.mask = 1 THEN << <<l \o "_channel_mask", IF zero THEN 0 ELSE -1>> >> ELSE <<>>)

RECURSIVE Concat(_, _)
Concat(f, n) == IF n = 0 THEN <<>> ELSE Concat(f, n - 1) \o f[n]

RegularRegs(cfg, pats, ptr, zeros) ==
  Concat([i \in DOMAIN cfg |-> StreamerRegs(i, cfg[i], pats[i], ptr[i], zeros[i] = 1)], Len(cfg))
  \o Concat([i \in DOMAIN cfg |-> IF cfg[i].transpose = 1 THEN << <<Letters[i] \o "_transpose", 0>> >> ELSE <<>>], Len(cfg))
  \o Concat([i \in DOMAIN cfg |-> IF cfg[i].bcast = 1
                THEN << <<Letters[i] \o "_broadcast", IF \E j \in 1..cfg[i].nspat : pats[i].ss[j] = 0 THEN 1 ELSE 0>> >> ELSE <<>>], Len(cfg))

(* xDMA (DmaExt) register file: all pointers first; then per streamer its strides, bounds, the channel enable word, the byte enable word
   (option), the extension select ("bypass") word and the CSR group of every extension in option order.
   st.exts[k] = [name, len, active, vals]: bit k-1 of the select word belongs to the k-th EXTENSION of the streamer (plain options take no
   bit), it is set exactly for the extension that executes the region's kernel, whose CSR group then carries the kernel's parameters
   (vals, by meaning); the groups of all other extensions are zero. *)
RECURSIVE SelectWord(_, _)
SelectWord(exts, k) == IF k > Len(exts) THEN 0 ELSE (IF exts[k].active = 1 THEN 2 ^ (k - 1) ELSE 0) + SelectWord(exts, k + 1)
ExtRegs(l, ext) == [j \in 1..ext.len |-> <<l \o "_" \o ext.name \o "_" \o ToString(j - 1), IF ext.active = 1 THEN ext.vals[j] ELSE 0>>]
XdmaStreamerRegs(i, st, pat, zero) ==
  LET l == Letters[i]  nt == Len(st.temp)  ts == Pad(pat.ts, nt, 0) IN
  [j \in 1..st.nspat |-> <<l \o "_sstride_" \o ToString(j - 1), pat.ss[j]>>]
  \o [d \in 1..nt |-> <<l \o "_bound_" \o ToString(d - 1), Bound(st, pat, d)>>]
  \o [d \in 1..nt |-> <<l \o "_tstride_" \o ToString(d - 1), ts[d]>>]
  \o << <<l \o "_enabled_chan", IF zero THEN 0 ELSE -1>> >>
  \o (IF st.bytemask = 1 THEN << <<l \o "_enabled_byte", IF zero THEN 0 ELSE -1>> >> ELSE <<>>)
  \o << <<l \o "_bypass", SelectWord(st.exts, 1)>> >>
  \o Concat([k \in DOMAIN st.exts |-> ExtRegs(l, st.exts[k])], Len(st.exts))
XdmaRegs(cfg, pats, ptr, zeros) ==
  Concat([i \in DOMAIN cfg |-> << <<Letters[i] \o "_ptr_low", IF zeros[i] = 1 THEN ZeroAddr ELSE ptr[i]>>, <<Letters[i] \o "_ptr_high", 0>> >>], Len(cfg))
  \o Concat([i \in DOMAIN cfg |-> XdmaStreamerRegs(i, cfg[i], pats[i], zeros[i] = 1)], Len(cfg))

Names(regs) == [k \in DOMAIN regs |-> regs[k][1]]
Values(regs) == [k \in DOMAIN regs |-> regs[k][2]]

(* register map: no two setup fields, launch registers, the barrier or reserved status registers share an address *)
InjectiveMap(addrs) == \A i, j \in DOMAIN addrs : i # j => addrs[i] # addrs[j]
=============================================================================
