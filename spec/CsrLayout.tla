----------------------------- MODULE CsrLayout -----------------------------
(***************************************************************************)
(* The register file a streaming accelerator must be given, derived from   *)
(* the MEANING of its field names (C08).  cfg is the streamer              *)
(* configuration: a sequence of                                            *)
(*   [temp : Seq("n"|"i"|"r"), nspat, remap, mask, transpose, bcast]       *)
(* pats[i] = [ub, ts, ss] the stride pattern of streamer i, ptr[i] the     *)
(* value of its base pointer (ZeroAddr for a constant-zero operand).       *)
(* Expected is the sequence of <<name, value>> in declared order.          *)
(***************************************************************************)
EXTENDS Integers, Sequences, FiniteSets, TLC, Streamer

Letters == <<"a", "b", "c", "d", "e", "f", "g", "h">>
ZeroAddr == 268435520    \* 0x1000_0040

Pad(s, n, v) == [k \in 1..n |-> IF k <= Len(s) THEN s[k] ELSE v]
Bound(st, pat, d) ==
  LET ub == Pad(pat.ub, Len(st.temp), 1)  ts == Pad(pat.ts, Len(st.temp), 0) IN
  IF st.temp[d] = "r" /\ ts[d] = 0 /\ ub[d] > 1 THEN 1 ELSE ub[d]

StreamerRegs(i, st, pat, p, zero) ==
  LET l == Letters[i]  nt == Len(st.temp)  ts == Pad(pat.ts, nt, 0) IN
  << <<l \o "_ptr_low", IF zero THEN ZeroAddr ELSE p>>, <<l \o "_ptr_high", 0>> >>
  \o [j \in 1..st.nspat |-> <<l \o "_sstride_" \o ToString(j - 1), pat.ss[j]>>]
  \o [d \in 1..nt |-> <<l \o "_bound_" \o ToString(d - 1), Bound(st, pat, d)>>]
  \o [d \in 1..nt |-> <<l \o "_tstride_" \o ToString(d - 1), ts[d]>>]
  \o (IF st.remap = 1 THEN << <<l \o "_address_remap", 0>> >> ELSE <<>>)
  \o (IF st.mask = 1 THEN << <<l \o "_channel_mask", IF zero THEN 0 ELSE -1>> >> ELSE <<>>)

RECURSIVE Concat(_, _)
Concat(f, n) == IF n = 0 THEN <<>> ELSE Concat(f, n - 1) \o f[n]

RegularRegs(cfg, pats, ptr, zeros) ==
  Concat([i \in DOMAIN cfg |-> StreamerRegs(i, cfg[i], pats[i], ptr[i], zeros[i] = 1)], Len(cfg))
  \o Concat([i \in DOMAIN cfg |-> IF cfg[i].transpose = 1 THEN << <<Letters[i] \o "_transpose", 0>> >> ELSE <<>>], Len(cfg))
  \o Concat([i \in DOMAIN cfg |-> IF cfg[i].bcast = 1
                THEN << <<Letters[i] \o "_broadcast", IF \E j \in 1..cfg[i].nspat : pats[i].ss[j] = 0 THEN 1 ELSE 0>> >> ELSE <<>>], Len(cfg))

Names(regs) == [k \in DOMAIN regs |-> regs[k][1]]
Values(regs) == [k \in DOMAIN regs |-> regs[k][2]]

(* register map: no two setup fields, launch registers, the barrier or reserved status registers share an address *)
InjectiveMap(addrs) == \A i, j \in DOMAIN addrs : i # j => addrs[i] # addrs[j]
=============================================================================
