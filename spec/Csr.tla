-------------------------------- MODULE Csr --------------------------------
(***************************************************************************)
(* CSR / RoCC level.  D is the list of accelerator declarations exported   *)
(* from the accfg.accelerator ops of the program being lowered:            *)
(*   [acc, rocc, fields : Seq([name, addr, insn, slot]),                   *)
(*    launch : Seq([name, addr, insn, slot]), barrier, clear : Seq(Int)]   *)
(* MatchCsr walks the accfg-level log of the source program and consumes   *)
(* the CSR-level log of the lowered program: a setup is one write per      *)
(* listed field, in listed order, to the declared address; a launch one    *)
(* write per launch value to the declared launch register; an await >= 1   *)
(* read of the declared barrier register (followed by the declared clear   *)
(* write for the HWPE handshake).  For RoCC accelerators a setup / launch  *)
(* is the SET of instructions touched, each carrying the values currently  *)
(* in effect for both of its source fields (0 if never set).               *)
(***************************************************************************)
EXTENDS Integers, Sequences, FiniteSets

Decl(D, acc) == D[CHOOSE i \in DOMAIN D : D[i].acc = acc]
HasDecl(D, acc) == \E i \in DOMAIN D : D[i].acc = acc
Entry(tab, name) == tab[CHOOSE i \in DOMAIN tab : tab[i].name = name]
HasEntry(tab, name) == \E i \in DOMAIN tab : tab[i].name = name

IsW(e, addr, v) == e.k = "w" /\ e.addr = addr /\ e.v = v
IsR(e, addr) == e.k = "r" /\ e.addr = addr

RECURSIVE SkipReads(_, _, _)
SkipReads(blog, j, addr) == IF j <= Len(blog) /\ IsR(blog[j], addr) THEN SkipReads(blog, j + 1, addr) ELSE j

(* value in effect for rocc source field (insn, slot) after the event's register snapshot *)
InEffect(e, tab, insn, slot) ==
  LET cands == {i \in DOMAIN tab : tab[i].insn = insn /\ tab[i].slot = slot} IN
  IF cands = {} THEN 0
  ELSE LET nm == tab[CHOOSE i \in cands : TRUE].name IN
       IF <<e.acc, nm>> \in DOMAIN e.snap /\ e.snap[<<e.acc, nm>>].def THEN e.snap[<<e.acc, nm>>].v ELSE 0

RoccSetupInsns(e, d) ==
  LET touched == {Entry(d.fields, e.names[k]).insn : k \in {k2 \in DOMAIN e.names : HasEntry(d.fields, e.names[k2])}} IN
  {[f7 |-> Entry(d.fields, CHOOSE nm \in {d.fields[i].name : i \in {i2 \in DOMAIN d.fields : d.fields[i2].insn = ins /\ d.fields[i2].slot = 1}} : TRUE).addr,
    rs1 |-> InEffect(e, d.fields, ins, 1), rs2 |-> InEffect(e, d.fields, ins, 2)] : ins \in touched}

LaunchVal(e, tab, insn, slot) ==
  LET cands == {k \in DOMAIN e.names : HasEntry(tab, e.names[k]) /\ Entry(tab, e.names[k]).insn = insn /\ Entry(tab, e.names[k]).slot = slot} IN
  IF cands = {} THEN 0 ELSE e.vals[CHOOSE k \in cands : TRUE]

RoccLaunchInsns(e, d) ==
  LET touched == {Entry(d.launch, e.names[k]).insn : k \in {k2 \in DOMAIN e.names : HasEntry(d.launch, e.names[k2])}} IN
  {[f7 |-> Entry(d.launch, CHOOSE nm \in {d.launch[i].name : i \in {i2 \in DOMAIN d.launch : d.launch[i2].insn = ins /\ d.launch[i2].slot = 1}} : TRUE).addr,
    rs1 |-> LaunchVal(e, d.launch, ins, 1), rs2 |-> LaunchVal(e, d.launch, ins, 2)] : ins \in touched}

InsnSet(blog, j, n) == {[f7 |-> blog[k].f7, rs1 |-> blog[k].rs1, rs2 |-> blog[k].rs2] : k \in j..(j + n - 1)}

RECURSIVE MatchCsr(_, _, _, _, _)
MatchCsr(D, alog, i, blog, j) ==
  IF i > Len(alog)
  THEN (IF j > Len(blog) THEN "ok" ELSE "ExtraLoweredEvents")
  ELSE LET e == alog[i] IN
    CASE e.k = "ret" -> MatchCsr(D, alog, i + 1, blog, IF j <= Len(blog) /\ blog[j].k = "ret" THEN j + 1 ELSE j)
      [] e.k = "op" ->
           IF j <= Len(blog) /\ blog[j].k = "op" /\ blog[j].n = e.n /\ blog[j].s = e.s /\ blog[j].vals = e.vals
           THEN MatchCsr(D, alog, i + 1, blog, j + 1) ELSE "OpaqueOrder"
      [] e.k \in {"setup", "launch"} /\ ~HasDecl(D, e.acc) -> "UndeclaredAccelerator"
      [] e.k = "setup" /\ Decl(D, e.acc).rocc = 1 ->
           LET exp == RoccSetupInsns(e, Decl(D, e.acc))  n == Cardinality(exp) IN
           IF j + n - 1 <= Len(blog) /\ (\A k \in j..(j + n - 1) : blog[k].k = "insn") /\ InsnSet(blog, j, n) = exp
           THEN MatchCsr(D, alog, i + 1, blog, j + n) ELSE "RoccSetupInstructions"
      [] e.k = "launch" /\ Decl(D, e.acc).rocc = 1 ->
           LET exp == RoccLaunchInsns(e, Decl(D, e.acc))  n == Cardinality(exp) IN
           IF j + n - 1 <= Len(blog) /\ (\A k \in j..(j + n - 1) : blog[k].k = "insn") /\ InsnSet(blog, j, n) = exp
           THEN MatchCsr(D, alog, i + 1, blog, j + n) ELSE "RoccLaunchInstructions"
      [] e.k = "setup" ->
           LET d == Decl(D, e.acc)  n == Len(e.names) IN
           IF /\ j + n - 1 <= Len(blog)
              /\ \A k \in 1..n : HasEntry(d.fields, e.names[k]) /\ IsW(blog[j + k - 1], Entry(d.fields, e.names[k]).addr, e.vals[k])
           THEN MatchCsr(D, alog, i + 1, blog, j + n) ELSE "SetupWrites"
      [] e.k = "launch" ->
           LET d == Decl(D, e.acc)  n == Len(e.names) IN
           IF /\ j + n - 1 <= Len(blog)
              /\ \A k \in 1..n : HasEntry(d.launch, e.names[k]) /\ IsW(blog[j + k - 1], Entry(d.launch, e.names[k]).addr, e.vals[k])
           THEN MatchCsr(D, alog, i + 1, blog, j + n) ELSE "LaunchWrites"
      [] e.k = "await" ->
           IF ~HasDecl(D, e.acc) THEN "UndeclaredAccelerator"
           ELSE LET d == Decl(D, e.acc) IN
             IF d.rocc = 1 THEN MatchCsr(D, alog, i + 1, blog, j)
             ELSE IF ~(j <= Len(blog) /\ IsR(blog[j], d.barrier)) THEN "AwaitPoll"
             ELSE LET nextAlsoAwait == i < Len(alog) /\ alog[i + 1].k = "await" /\ alog[i + 1].acc = e.acc /\ Len(d.clear) = 0
                      j2 == IF nextAlsoAwait THEN j + 1 ELSE SkipReads(blog, j, d.barrier) IN
                  IF Len(d.clear) = 0 THEN MatchCsr(D, alog, i + 1, blog, j2)
                  ELSE IF j2 <= Len(blog) /\ IsW(blog[j2], d.clear[1], d.clear[2])
                       THEN MatchCsr(D, alog, i + 1, blog, j2 + 1) ELSE "AwaitClearWrite"
      [] OTHER -> "UnknownSourceEvent"

NoStateLeft(P) ==
  /\ \A i \in DOMAIN P.ty : P.ty[i] \notin {"s", "t"}
  /\ \A i \in DOMAIN P.ops : P.ops[i].k \notin {"setup", "launch", "await", "reset"}
=============================================================================
