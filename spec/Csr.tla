-------------------------------- MODULE Csr --------------------------------
(* CSR / RoCC instruction level: events and the declared-map lowering of accfg events *)
EXTENDS Integers, Sequences
CsrPlaceholder == TRUE
=============================================================================
