----------------------------- MODULE Schedule -----------------------------
(***************************************************************************)
(* Schedules: an iteration box (bounds) and one integer affine map per     *)
(* operand, pats[o] = [A |-> matrix (sequence of rows), b |-> vector].     *)
(* Dimension 1 is the outermost loop.  The elementary transformations are  *)
(* defined mathematically; IterBag is the multiset of operand-index tuples *)
(* visited, which every transformation must preserve (C03).                *)
(***************************************************************************)
EXTENDS Integers, Sequences, FiniteSets, Layout

NumDims(S) == Len(S.bounds)
Dot(r, x) == LET RECURSIVE D(_) D(k) == IF k > Len(r) THEN 0 ELSE r[k] * x[k] + D(k + 1) IN D(1)
ApplyPat(p, x) == [i \in DOMAIN p.A |-> Dot(p.A[i], x) + p.b[i]]
Apply(S, x) == [o \in DOMAIN S.pats |-> ApplyPat(S.pats[o], x)]

IterBag(S) ==
  LET box == Box(S.bounds)
      pts == [x \in box |-> Apply(S, x)]
      img == {pts[x] : x \in box} IN
  [t \in img |-> Cardinality({x \in box : pts[x] = t})]

(* IterBag(S1) = IterBag(S2), decided without counting when S1 visits every tuple once (then S2 has the same multiset iff it has as
   many iterations and visits the same SET of tuples); the general case counts *)
Img(S) == {Apply(S, x) : x \in Box(S.bounds)}
BoxSize(S) == Prod(S.bounds, 1)
SameIterSpace(S1, S2) ==
  LET i1 == Img(S1) IN
  IF Cardinality(i1) = BoxSize(S1) THEN BoxSize(S2) = BoxSize(S1) /\ Img(S2) = i1
  ELSE IterBag(S1) = IterBag(S2)

MapCols(S, F(_)) ==  \* apply a column transformation to every row of every operand
  [o \in DOMAIN S.pats |-> [A |-> [i \in DOMAIN S.pats[o].A |-> F(S.pats[o].A[i])], b |-> S.pats[o].b]]

(* rotate the leftmost k dims: (0,1,..,k-1) -> (1,..,k-1,0) *)
RotSeq(s, k) == SubSeq(s, 2, k) \o <<s[1]>> \o SubSeq(s, k + 1, Len(s))
Rotate(S, k) == [bounds |-> RotSeq(S.bounds, k), pats |-> MapCols(S, LAMBDA r : RotSeq(r, k))]

(* split dim d (1-based) into (bounds[d] / t, t): index d = t * d_outer + d_inner *)
CanTile(S, d, t) == d \in 1..NumDims(S) /\ t > 0 /\ S.bounds[d] % t = 0
TileSeqB(s, d, t) == SubSeq(s, 1, d - 1) \o <<s[d] \div t, t>> \o SubSeq(s, d + 1, Len(s))
TileSeqA(r, d, t) == SubSeq(r, 1, d - 1) \o <<r[d] * t, r[d]>> \o SubSeq(r, d + 1, Len(r))
Tile(S, d, t) == [bounds |-> TileSeqB(S.bounds, d, t), pats |-> MapCols(S, LAMBDA r : TileSeqA(r, d, t))]

AddDim(S) == [bounds |-> <<1>> \o S.bounds, pats |-> MapCols(S, LAMBDA r : <<0>> \o r)]

KeepIdx(bounds) == LET RECURSIVE K(_) K(j) == IF j > Len(bounds) THEN <<>> ELSE (IF bounds[j] = 1 THEN <<>> ELSE <<j>>) \o K(j + 1) IN K(1)
Select(s, idx) == [k \in DOMAIN idx |-> s[idx[k]]]
DropUnit(S) == LET idx == KeepIdx(S.bounds) IN
  [bounds |-> Select(S.bounds, idx), pats |-> MapCols(S, LAMBDA r : Select(r, idx))]

InnerDims(S, n) == LET k == NumDims(S) - n IN
  [bounds |-> SubSeq(S.bounds, k + 1, NumDims(S)), pats |-> MapCols(S, LAMBDA r : SubSeq(r, k + 1, Len(r)))]
=============================================================================
