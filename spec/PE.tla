--------------------------------- MODULE PE ---------------------------------
(***************************************************************************)
(* Configurable processing elements (PHS).  A PE graph G is                *)
(*   [ndata, nsw, nodes : Seq(Node), yield : Ref]                          *)
(*   Node = [kind |-> "choose", sw, a : Seq(Ref), alts : Seq([op, a])]     *)
(*        | [kind |-> "mux", sw, a : <<lhs, rhs>>]                         *)
(*        | [kind |-> "op", a : <<x, y>>, alts : <<[op]>>]  (no switch)    *)
(*   Ref  = [t |-> "arg", i] (data input i, 0-based) | [t |-> "node", i]   *)
(* sv is the full switch vector (0-based switch k is sv[k + 1]).           *)
(* Evaluation is demand driven along the SELECTED paths only: alternative  *)
(* sv[sw] of a choose, rhs iff the switch is 1 for a mux.  A kernel is a   *)
(* straight-line body [ndata, ops : Seq([op, a : Seq(Ref)]), yield].       *)
(***************************************************************************)
EXTENDS Integers, Sequences, FiniteSets

Undef == -999999
Max2(x, y) == IF x > y THEN x ELSE y
Min2(x, y) == IF x < y THEN x ELSE y
BinSem(op, x, y) ==
  IF x = Undef \/ y = Undef THEN Undef
  ELSE CASE op = "arith.addi" -> x + y
         [] op = "arith.subi" -> x - y
         [] op = "arith.muli" -> x * y
         [] op = "arith.maxsi" -> Max2(x, y)
         [] op = "arith.minsi" -> Min2(x, y)
         (* float / other ops are uninterpreted: distinct concrete stand-ins *)
         [] op = "arith.addf" -> x + y + 7
         [] op = "arith.subf" -> x - y - 5
         [] op = "arith.mulf" -> x * y + 3
         [] OTHER -> Undef

RECURSIVE EvalRef(_, _, _, _, _)
EvalRef(G, sv, data, ref, fuel) ==
  IF fuel = 0 THEN Undef
  ELSE IF ref.t = "arg" THEN data[ref.i + 1]
  ELSE LET n == G.nodes[ref.i] IN
    IF n.kind = "mux"
    THEN EvalRef(G, sv, data, IF sv[n.sw + 1] = 1 THEN n.a[2] ELSE n.a[1], fuel - 1)
    ELSE IF n.kind = "op"      \* an operation without a switch (what is left of a choose with a single alternative in the hardware view)
    THEN BinSem(n.alts[1].op, EvalRef(G, sv, data, n.a[1], fuel - 1), EvalRef(G, sv, data, n.a[2], fuel - 1))
    ELSE IF sv[n.sw + 1] < 0 \/ sv[n.sw + 1] >= Len(n.alts) THEN Undef
    ELSE LET alt == n.alts[sv[n.sw + 1] + 1] IN
         BinSem(alt.op, EvalRef(G, sv, data, n.a[alt.a[1] + 1], fuel - 1), EvalRef(G, sv, data, n.a[alt.a[2] + 1], fuel - 1))
EvalPE(G, sv, data) == EvalRef(G, sv, data, G.yield, 2 * Len(G.nodes) + 2)

RECURSIVE EvalK(_, _, _)
EvalK(K, data, ref) ==
  IF ref.t = "arg" THEN data[ref.i + 1]
  ELSE LET o == K.ops[ref.i] IN BinSem(o.op, EvalK(K, data, o.a[1]), EvalK(K, data, o.a[2]))
EvalKernel(K, data) == EvalK(K, data, K.yield)

(* switches that exist in hardware: those driving a mux or a choose with more than one alternative, in block-argument order *)
IsRealSwitch(G, k) == \E i \in DOMAIN G.nodes : G.nodes[i].kind # "op" /\ G.nodes[i].sw = k /\ (G.nodes[i].kind = "mux" \/ Len(G.nodes[i].alts) > 1)
RealSwitches(G) == LET RECURSIVE F(_) F(k) == IF k >= G.nsw THEN <<>> ELSE (IF IsRealSwitch(G, k) THEN <<k>> ELSE <<>>) \o F(k + 1) IN F(0)
Expand(G, decoded) ==
  LET rs == RealSwitches(G) IN
  [k \in 1..G.nsw |-> IF \E j \in DOMAIN rs : rs[j] = k - 1 THEN decoded[CHOOSE j \in DOMAIN rs : rs[j] = k - 1] ELSE 0]
=============================================================================
