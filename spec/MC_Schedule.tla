---------------------------- MODULE MC_Schedule ----------------------------
(***************************************************************************)
(* State machine over schedules: every elementary transformation is an     *)
(* action.  Exhaustive configuration: the definitions preserve the         *)
(* iteration multiset (design check).  Simulation configuration: every     *)
(* visited state is printed with its history so that the harness can       *)
(* replay the behaviour on the real Schedule objects and compare.          *)
(***************************************************************************)
EXTENDS Template, TLC, Json, IOUtils

CONSTANTS MaxDims, MaxOps, Entries, Bounds, TileFactors, MaxDepth, Sim, RowsSet

EntSmall == -1..2
EntBig == -1..3

SimInits == IF Sim THEN JsonDeserialize(IOEnv.INITS) ELSE <<>>

VARIABLES sched, orig, hist
vars == <<sched, orig, hist>>

PatSet(nd) == UNION {[A : [1..r -> [1..nd -> Entries]], b : [1..r -> {0, 1}]] : r \in RowsSet}
InitSet(nd, nops) == {[bounds |-> bs, pats |-> ps] : bs \in [1..nd -> Bounds], ps \in [1..nops -> PatSet(nd)]}

Init ==
  /\ IF Sim
     THEN \E i \in DOMAIN SimInits : sched = SimInits[i]
     ELSE \E nd \in 1..MaxDims, nops \in 1..MaxOps : sched \in InitSet(nd, nops)
  /\ orig = sched
  /\ hist = <<>>

DoRotate(k) == /\ k \in 1..NumDims(sched)
               /\ sched' = Rotate(sched, k) /\ hist' = Append(hist, [act |-> "rotate", a |-> k, b |-> 0])
DoTile(d, t) == /\ CanTile(sched, d, t) /\ NumDims(sched) < MaxDims + 2
                /\ sched' = Tile(sched, d, t) /\ hist' = Append(hist, [act |-> "tile", a |-> d, b |-> t])
DoAddDim == /\ NumDims(sched) < MaxDims + 2
            /\ sched' = AddDim(sched) /\ hist' = Append(hist, [act |-> "adddim", a |-> 0, b |-> 0])
DoDropUnit == /\ \E j \in DOMAIN sched.bounds : sched.bounds[j] # 1
              /\ sched' = DropUnit(sched) /\ hist' = Append(hist, [act |-> "dropunit", a |-> 0, b |-> 0])

Next ==
  /\ Len(hist) < MaxDepth
  /\ \/ \E k \in 1..(MaxDims + 2) : DoRotate(k)
     \/ \E d \in 1..(MaxDims + 2), t \in TileFactors : DoTile(d, t)
     \/ DoAddDim
     \/ DoDropUnit
  /\ UNCHANGED orig

Spec == Init /\ [][Next]_vars

IterSpacePreserved == IterBag(sched) = IterBag(orig)
Emit == PrintT(<<"BEHAVIOUR", ToJson([orig |-> orig, hist |-> hist, sched |-> sched])>>)
=============================================================================
