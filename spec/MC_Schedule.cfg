SPECIFICATION Spec
CONSTANTS
  MaxDims = 2
  MaxOps = 1
  Entries <- EntSmall
  Bounds = {1, 2, 3, 4}
  TileFactors = {2, 3}
  MaxDepth = 2
  RowsSet = {1, 2}
  Sim = FALSE
INVARIANT IterSpacePreserved
CHECK_DEADLOCK FALSE
