------------------------------- MODULE SeqGen -------------------------------
(***************************************************************************)
(* TLC as the generator of small structured operation sequences: every     *)
(* well-formed token sequence with at most MaxNodes nodes and nesting      *)
(* depth at most MaxDepth.  L<j> is the j-th leaf operation and F<k> the   *)
(* k-th loop kind (the harness gives them their meaning: copies, compute   *)
(* ops, readers, barriers over a few buffers; bounds and steps of loops),  *)
(* F<k> ( ... ) is a loop, X ( ... E ... ) a conditional with both arms.   *)
(* Used for exhaustive small-scope inputs of the barrier, dispatch and     *)
(* loop-restructuring checks (C13, C14, C17).                              *)
(***************************************************************************)
EXTENDS Integers, Sequences, TLC
CONSTANTS NL, NF, MaxNodes, MaxDepth, WithIf
VARIABLES toks, stack, nodes
vars == <<toks, stack, nodes>>

Init == toks = <<>> /\ stack = <<>> /\ nodes = 0
AddLeaf == \E j \in 1..NL :
  /\ nodes < MaxNodes
  /\ toks' = Append(toks, "L" \o ToString(j)) /\ nodes' = nodes + 1 /\ UNCHANGED stack
Loops == {"F" \o ToString(j) : j \in 1..NF}      \* loop kinds (bounds / steps chosen by the harness)
Open == \E t \in (IF WithIf = 1 THEN Loops \cup {"X"} ELSE Loops) :
  /\ nodes < MaxNodes /\ Len(stack) < MaxDepth
  /\ toks' = Append(toks, t) /\ stack' = Append(stack, IF t = "X" THEN "X" ELSE "F") /\ nodes' = nodes + 1
Else ==
  /\ stack # <<>> /\ stack[Len(stack)] = "X"
  /\ toks' = Append(toks, "E") /\ stack' = [stack EXCEPT ![Len(stack)] = "XE"] /\ UNCHANGED nodes
Close ==
  /\ stack # <<>> /\ stack[Len(stack)] \in {"F", "XE"}
  /\ toks[Len(toks)] \notin Loops          \* no empty loop bodies
  /\ toks' = Append(toks, ")") /\ stack' = SubSeq(stack, 1, Len(stack) - 1) /\ UNCHANGED nodes
Next == AddLeaf \/ Open \/ Else \/ Close
Spec == Init /\ [][Next]_vars
Emit == (stack = <<>> /\ toks # <<>>) => PrintT(<<"SEQUENCE", toks>>)
=============================================================================
