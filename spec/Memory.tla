------------------------------- MODULE Memory -------------------------------
(* byte/element memory of the abstract machine; extended by Dma/Buffers checks *)
EXTENDS Integers, Sequences
MemInit == <<>>
=============================================================================
