------------------------------- MODULE BodyGen -------------------------------
(***************************************************************************)
(* TLC as the generator of small scalar computation bodies (C18): every    *)
(* straight-line body of at most MaxOps binary operations of NK kinds over *)
(* NA block arguments in EVERY wiring - operand k refers to argument k     *)
(* (k <= NA) or to the result of operation k - NA - in which every result  *)
(* but the last is used by a later operation (the last one is yielded).    *)
(* Printed flat as <<kind, a, b, kind, a, b, ...>>.                        *)
(***************************************************************************)
EXTENDS Integers, Sequences, TLC
CONSTANTS NA, NK, MaxOps
VARIABLE body
Init == body = <<>>
Next == /\ Len(body) < 3 * MaxOps
        /\ \E k \in 1..NK, a, b \in 1..(NA + Len(body) \div 3) : body' = body \o <<k, a, b>>
Spec == Init /\ [][Next]_body
NOps == Len(body) \div 3
Used(i) == \E j \in (i + 1)..NOps : body[3 * j - 1] = NA + i \/ body[3 * j] = NA + i
Emit == (NOps >= 1 /\ \A i \in 1..(NOps - 1) : Used(i)) => PrintT(<<"BODY", body>>)
=============================================================================
