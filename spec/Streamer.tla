----------------------------- MODULE Streamer -----------------------------
(***************************************************************************)
(* The hardware data streamer as an address generator: a temporal odometer *)
(* over upper bounds ub (dimension 1 innermost / fastest) with temporal    *)
(* strides ts, and per step a set of spatial ports with strides ss.        *)
(* A bound of 0 anywhere disables the streamer (no step).                  *)
(***************************************************************************)
EXTENDS Integers, Sequences, FiniteSets

RECURSIVE ProdS(_, _)
ProdS(s, k) == IF k > Len(s) THEN 1 ELSE s[k] * ProdS(s, k + 1)
Steps(ub) == ProdS(ub, 1)

(* counter value of dimension d at step n (n = 0 .. Steps-1), dimension 1 fastest *)
RECURSIVE Below(_, _)
Below(ub, d) == IF d <= 1 THEN 1 ELSE ub[d - 1] * Below(ub, d - 1)
Cnt(ub, d, n) == (n \div Below(ub, d)) % ub[d]

RECURSIVE TAddrFrom(_, _, _, _)
TAddrFrom(ub, ts, n, d) == IF d > Len(ub) THEN 0 ELSE Cnt(ub, d, n) * ts[d] + TAddrFrom(ub, ts, n, d + 1)
TAddr(ub, ts, n) == TAddrFrom(ub, ts, n, 1)

(* the temporal address sequence *)
AddrSeq(ub, ts) == [n \in 1..Steps(ub) |-> TAddr(ub, ts, n - 1)]

(* spatial offsets: all combinations of port indices; sb = spatial bounds (ports per spatial dim) *)
RECURSIVE SpatOffsets(_, _, _)
SpatOffsets(sb, ss, j) ==
  IF j > Len(sb) THEN {0} ELSE {p * ss[j] + r : p \in 0..(sb[j] - 1), r \in SpatOffsets(sb, ss, j + 1)}

(* bytes touched at step n: every port fetches one word of wb bytes *)
WordBytes(a, wb) == a..(a + wb - 1)
StepBytes(base, ub, ts, sb, ss, wb, n) ==
  UNION {WordBytes(base + TAddr(ub, ts, n) + o, wb) : o \in SpatOffsets(sb, ss, 1)}
=============================================================================
