----------------------------- MODULE PairCheck -----------------------------
(***************************************************************************)
(* Runs, in one behaviour, machine A on a pass's input image and machine B *)
(* on the real pass's output image from the same oracle (run-time inputs), *)
(* then judges the pass contract.  TLC enumerates the case (tid) and the   *)
(* oracle (oi) in Init, so one run decides a whole batch for all inputs.   *)
(***************************************************************************)
EXTENDS IRMachine, Contracts, Json, IOUtils

Batch == JsonDeserialize(IOEnv.BATCH)
Cases == Batch.cases
Only == IF "ONLY" \in DOMAIN IOEnv THEN IOEnv.ONLY ELSE ""

VARIABLES tid, oi, side, m, resA, verdict
vars == <<tid, oi, side, m, resA, verdict>>

RECURSIVE ProdLen(_, _)
ProdLen(doms, k) == IF k > Len(doms) THEN 1 ELSE Len(doms[k]) * ProdLen(doms, k + 1)
RECURSIVE Decode(_, _, _)
Decode(doms, idx, acc) ==
  IF Len(acc) = Len(doms) THEN acc
  ELSE LET d == doms[Len(acc) + 1] IN Decode(doms, idx \div Len(d), Append(acc, d[(idx % Len(d)) + 1]))

Doms(c) == c.argdom \o <<c.opqdom, c.stdom, c.descdom, c.coredom>>
NOracles(c) == ProdLen(Doms(c), 1)
OracleAt(c, i) == LET t == Decode(Doms(c), i - 1, <<>>) IN
                  [args |-> SubSeq(t, 1, Len(c.argdom)), opq |-> t[Len(t) - 3], st |-> t[Len(t) - 2], desc |-> t[Len(t) - 1],
                   core |-> t[Len(t)]]

RegKeys(c) == {<<c.regkeys[i][1], c.regkeys[i][2]>> : i \in DOMAIN c.regkeys}
Accs(c) == {c.accs[i] : i \in DOMAIN c.accs}
C == Cases[tid]
Orc == OracleAt(C, oi)
Prog == IF side = "A" THEN C.A ELSE C.B

Init ==
  /\ tid \in 1..Len(Cases)
  /\ oi \in 1..NOracles(Cases[tid])
  /\ side = "A"
  /\ m = M0(Cases[tid].A, OracleAt(Cases[tid], oi), RegKeys(Cases[tid]), Accs(Cases[tid]), <<>>)
  /\ resA = [log |-> <<>>, fault |-> "none"]
  /\ verdict = ""

Run ==
  /\ side \in {"A", "B"} /\ m.status = "run"
  /\ m' = MStep(Prog, Orc, m)
  /\ UNCHANGED <<tid, oi, side, resA, verdict>>

Switch ==
  /\ side = "A" /\ m.status # "run"
  /\ resA' = m
  /\ side' = "B"
  /\ m' = M0(C.B, Orc, RegKeys(C), Accs(C), m.uf)
  /\ UNCHANGED <<tid, oi, verdict>>

Finish ==
  /\ side = "B" /\ m.status # "run"
  /\ LET v == Judge(Batch.contract, C, Orc, resA, m) IN
     /\ verdict' = v
     /\ PrintT(<<"VERDICT", tid, oi, v, Len(resA.log), Len(m.log)>>)
  /\ side' = "end"
  /\ UNCHANGED <<tid, oi, m, resA>>

Next == Run \/ Switch \/ Finish
Spec == Init /\ [][Next]_vars

(* used as INVARIANT in replay mode to obtain a counterexample trace *)
NoViolation == verdict = "" \/ verdict = "ok" \/ SubSeq(verdict, 1, 5) = "skipA"
=============================================================================
