builtin.module {
func.func public @f(%a0 : tensor<2x3xi32>, %a1 : tensor<2x3xi32>, %a2 : tensor<2x3xi32>) -> (tensor<2x3xi32>) {
  %e0 = tensor.empty() : tensor<2x3xi32>
  %r0 = "dart.operation"(%a0, %a1, %e0) <{patterns = [affine_map<(d0, d1) -> (d0, d1)>, affine_map<(d0, d1) -> (d0, d1)>, affine_map<(d0, d1) -> (d0, d1)>], accelerator = "snax_alu", operandSegmentSizes = array<i32: 2, 1>}> ({
  ^bb0(%s0 : !dart.stream<i32>, %s1 : !dart.stream<i32>, %s2 : !dart.stream<i32>):
    %g = "dart.generic"(%s0, %s1) <{library_call = "snax_alu"}> ({
    ^bb1(%x0 : i32, %x1 : i32, %xo : i32):
      %v = kernel.mul %x0, %x1 : i32, i32 -> i32
      dart.yield %v : i32
    }) : (!dart.stream<i32>, !dart.stream<i32>) -> !dart.stream<i32>
    dart.yield %g : !dart.stream<i32>
  }) : (tensor<2x3xi32>, tensor<2x3xi32>, tensor<2x3xi32>) -> tensor<2x3xi32>
  %e1 = tensor.empty() : tensor<2x3xi32>
  %r1 = "dart.operation"(%a2, %r0, %e1) <{patterns = [affine_map<(d0, d1) -> (d0, d1)>, affine_map<(d0, d1) -> (d0, d1)>, affine_map<(d0, d1) -> (d0, d1)>], accelerator = "snax_alu", operandSegmentSizes = array<i32: 2, 1>}> ({
  ^bb0(%s0 : !dart.stream<i32>, %s1 : !dart.stream<i32>, %s2 : !dart.stream<i32>):
    %g = "dart.generic"(%s0, %s1) <{library_call = "snax_alu"}> ({
    ^bb1(%x0 : i32, %x1 : i32, %xo : i32):
      %v = kernel.add %x0, %x1 : i32, i32 -> i32
      dart.yield %v : i32
    }) : (!dart.stream<i32>, !dart.stream<i32>) -> !dart.stream<i32>
    dart.yield %g : !dart.stream<i32>
  }) : (tensor<2x3xi32>, tensor<2x3xi32>, tensor<2x3xi32>) -> tensor<2x3xi32>
  func.return %r1 : tensor<2x3xi32>
}
}
