func.func @f() {
  %c0 = arith.constant 0 : index
  %c3 = arith.constant 3 : index
  %c10 = arith.constant 10 : index
  scf.for %i = %c0 to %c10 step %c3 {
    "test.op"(%i) : (index) -> ()
  }
  func.return
}
