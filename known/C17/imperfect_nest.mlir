func.func @f() {
  %c0 = arith.constant 0 : index
  %c1 = arith.constant 1 : index
  %c2 = arith.constant 2 : index
  %c3 = arith.constant 3 : index
  scf.for %i = %c0 to %c2 step %c1 {
    "test.op"(%i) {a} : (index) -> ()
    scf.for %j = %c0 to %c3 step %c1 {
      "test.op"(%i, %j) {b} : (index, index) -> ()
    }
    "test.op"(%i) {c} : (index) -> ()
  }
  func.return
}
