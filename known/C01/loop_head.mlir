func.func @f(%a : i32, %b : i32, %n : index) {
  %c0 = arith.constant 0 : index
  %c1 = arith.constant 1 : index
  %s0 = accfg.setup "snax_hwpe_mult" to ("A" = %a : i32, "B" = %a : i32) : !accfg.state<"snax_hwpe_mult">
  %t0 = "accfg.launch"(%s0) <{param_names = [], accelerator = "snax_hwpe_mult"}> : (!accfg.state<"snax_hwpe_mult">) -> !accfg.token<"snax_hwpe_mult">
  "accfg.await"(%t0) : (!accfg.token<"snax_hwpe_mult">) -> ()
  scf.for %i = %c0 to %n step %c1 {
    %s1 = accfg.setup "snax_hwpe_mult" to ("A" = %a : i32, "B" = %a : i32) : !accfg.state<"snax_hwpe_mult">
    %t1 = "accfg.launch"(%s1) <{param_names = [], accelerator = "snax_hwpe_mult"}> : (!accfg.state<"snax_hwpe_mult">) -> !accfg.token<"snax_hwpe_mult">
    "accfg.await"(%t1) : (!accfg.token<"snax_hwpe_mult">) -> ()
    %s2 = accfg.setup "snax_hwpe_mult" to ("A" = %b : i32, "B" = %a : i32) : !accfg.state<"snax_hwpe_mult">
    %t2 = "accfg.launch"(%s2) <{param_names = [], accelerator = "snax_hwpe_mult"}> : (!accfg.state<"snax_hwpe_mult">) -> !accfg.token<"snax_hwpe_mult">
    "accfg.await"(%t2) : (!accfg.token<"snax_hwpe_mult">) -> ()
  }
  %s3 = accfg.setup "snax_hwpe_mult" to ("A" = %b : i32, "B" = %a : i32) : !accfg.state<"snax_hwpe_mult">
  %t3 = "accfg.launch"(%s3) <{param_names = [], accelerator = "snax_hwpe_mult"}> : (!accfg.state<"snax_hwpe_mult">) -> !accfg.token<"snax_hwpe_mult">
  "accfg.await"(%t3) : (!accfg.token<"snax_hwpe_mult">) -> ()
  func.return
}
