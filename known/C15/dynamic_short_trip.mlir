builtin.module {
  func.func public @f(%A : memref<16x8xi32>, %B : memref<16x8xi32>, %ub : index) {
    %lb = arith.constant 0 : index
    %st = arith.constant 1 : index
    %buf0 = memref.alloc() : memref<1x8xi32>
    %buf1 = memref.alloc() : memref<1x8xi32>
    scf.for %i = %lb to %ub step %st {
      %in = memref.subview %A[%i, 0] [1, 8] [1, 1] : memref<16x8xi32> to memref<1x8xi32, strided<[8, 1], offset: ?>>
      %out = memref.subview %B[%i, 0] [1, 8] [1, 1] : memref<16x8xi32> to memref<1x8xi32, strided<[8, 1], offset: ?>>
      "memref.copy"(%in, %buf0) {tag = 1 : i32} : (memref<1x8xi32, strided<[8, 1], offset: ?>>, memref<1x8xi32>) -> ()
      "snax.cluster_sync_op"() : () -> ()
      linalg.generic {indexing_maps = [affine_map<(d0, d1) -> (d0, d1)>, affine_map<(d0, d1) -> (d0, d1)>], iterator_types = ["parallel", "parallel"]} ins(%buf0 : memref<1x8xi32>) outs(%buf1 : memref<1x8xi32>) attrs = {tag = 2 : i32} {
      ^bb0(%x : i32, %y : i32):
        linalg.yield %x : i32
      }
      "snax.cluster_sync_op"() : () -> ()
      "memref.copy"(%buf1, %out) {tag = 3 : i32} : (memref<1x8xi32>, memref<1x8xi32, strided<[8, 1], offset: ?>>) -> ()
      "snax.cluster_sync_op"() : () -> ()
    }
    "test.op"(%buf1) {tag = 99 : i32} : (memref<1x8xi32>) -> ()
    func.return
  }
}
