builtin.module {
  func.func @f(%v0: i32, %v1: i32, %v2: i32, %n0: index, %n1: index, %b0: i1, %b1: i1) {
    %c0 = arith.constant 0 : index
    %c1 = arith.constant 1 : index
    %c2 = arith.constant 2 : index
    %c3 = arith.constant 3 : index
    %k0 = arith.constant 0 : i32
    %k1 = arith.constant 1 : i32
    %x1 = arith.muli %k0, %v2 : i32
    %x2 = arith.addi %x1, %k1 : i32
    %s3 = accfg.setup "snax_hwpe_mult" to ("A" = %v0 : i32, "B" = %v1 : i32, "O" = %x2 : i32) : !accfg.state<"snax_hwpe_mult">
    %t4 = "accfg.launch"(%s3) <{param_names = [], accelerator = "snax_hwpe_mult"}> : (!accfg.state<"snax_hwpe_mult">) -> !accfg.token<"snax_hwpe_mult">
    "accfg.await"(%t4) : (!accfg.token<"snax_hwpe_mult">) -> ()
    %r7 = scf.for %i5 = %c0 to %n0 step %c2 iter_args(%p6 = %k1) -> (i32) {
      %ic8 = arith.index_cast %i5 : index to i32
      %x9 = arith.addi %v0, %v1 : i32
      %x10 = arith.addi %x9, %p6 : i32
      %s11 = accfg.setup "snax_hwpe_mult" to ("A" = %k0 : i32, "B" = %v1 : i32, "O" = %x10 : i32) : !accfg.state<"snax_hwpe_mult">
      %t12 = "accfg.launch"(%s11) <{param_names = [], accelerator = "snax_hwpe_mult"}> : (!accfg.state<"snax_hwpe_mult">) -> !accfg.token<"snax_hwpe_mult">
      "accfg.await"(%t12) : (!accfg.token<"snax_hwpe_mult">) -> ()
      scf.for %i13 = %c0 to %n0 step %c2 {
        %ic14 = arith.index_cast %i13 : index to i32
        %x15 = arith.addi %v2, %ic8 : i32
        %x16 = arith.addi %x15, %k1 : i32
        %s17 = accfg.setup "snax_hwpe_mult" to ("A" = %x16 : i32, "B" = %p6 : i32, "O" = %p6 : i32) : !accfg.state<"snax_hwpe_mult">
        %t18 = "accfg.launch"(%s17) <{param_names = [], accelerator = "snax_hwpe_mult"}> : (!accfg.state<"snax_hwpe_mult">) -> !accfg.token<"snax_hwpe_mult">
        "accfg.await"(%t18) : (!accfg.token<"snax_hwpe_mult">) -> ()
        %x19 = arith.addi %ic8, %ic14 : i32
        %x20 = arith.addi %v1, %ic14 : i32
        %x21 = arith.addi %x20, %v0 : i32
        %s22 = accfg.setup "snax_hwpe_mult" to ("A" = %x19 : i32, "B" = %v1 : i32, "O" = %x21 : i32) : !accfg.state<"snax_hwpe_mult">
        %t23 = "accfg.launch"(%s22) <{param_names = [], accelerator = "snax_hwpe_mult"}> : (!accfg.state<"snax_hwpe_mult">) -> !accfg.token<"snax_hwpe_mult">
        "accfg.await"(%t23) : (!accfg.token<"snax_hwpe_mult">) -> ()
      }
      %q24 = arith.addi %p6, %ic8 : i32
      scf.yield %q24 : i32
    }
    func.return
  }
}
