func.func @f(%arg0 : memref<8x8xi32, "L3">, %out : memref<8xi32, "L3">) {
  %c0 = arith.constant 0 : index
  %c1 = arith.constant 1 : index
  %c4 = arith.constant 4 : index
  %buf = memref.alloc() : memref<8xi32, "L1">
  %o = memref.alloc() : memref<8xi32, "L1">
  scf.for %i = %c0 to %c4 step %c1 {
    scf.for %j = %c0 to %c1 step %c1 {
      %sv = memref.subview %arg0[%i, 0] [1, 8] [1, 1] : memref<8x8xi32, "L3"> to memref<8xi32, strided<[1], offset: ?>, "L3">
      "memref.copy"(%sv, %buf) : (memref<8xi32, strided<[1], offset: ?>, "L3">, memref<8xi32, "L1">) -> ()
    }
    linalg.generic {indexing_maps = [affine_map<(d0) -> (d0)>, affine_map<(d0) -> (d0)>], iterator_types = ["parallel"]} ins(%buf : memref<8xi32, "L1">) outs(%o : memref<8xi32, "L1">) {
    ^bb0(%a : i32, %b : i32):
      linalg.yield %a : i32
    }
  }
  func.return
}
