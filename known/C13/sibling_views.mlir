func.func public @f(%a : memref<16xi32>, %b : memref<16xi32>, %c : memref<16xi32>, %n : index, %p : i1) {
  %v1 = memref.subview %b[0] [16] [1] : memref<16xi32> to memref<16xi32>
  %v2 = memref.subview %b[0] [16] [1] : memref<16xi32> to memref<16xi32>
  linalg.generic {indexing_maps = [affine_map<(d0) -> (d0)>, affine_map<(d0) -> (d0)>, affine_map<(d0) -> (d0)>], iterator_types = ["parallel"]} ins(%a, %a : memref<16xi32>, memref<16xi32>) outs(%v2 : memref<16xi32>) attrs = {tag = 1 : i32} {
  ^bb0(%x : i32, %y : i32, %z : i32):
    %m = arith.muli %x, %y : i32
    linalg.yield %m : i32
  }
  "memref.copy"(%v1, %c) {tag = 2 : i32} : (memref<16xi32>, memref<16xi32>) -> ()
  func.return
}
