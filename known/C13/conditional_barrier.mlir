func.func public @f(%a : memref<16xi32>, %b : memref<16xi32>, %c : memref<16xi32>, %n : index, %p : i1) {
  %c0 = arith.constant 0 : index
  %c1 = arith.constant 1 : index
  linalg.generic {indexing_maps = [affine_map<(d0) -> (d0)>, affine_map<(d0) -> (d0)>, affine_map<(d0) -> (d0)>], iterator_types = ["parallel"]} ins(%a, %c : memref<16xi32>, memref<16xi32>) outs(%b : memref<16xi32>) attrs = {tag = 2 : i32} {
  ^bb0(%x : i32, %y : i32, %z : i32):
    %m = arith.muli %x, %y : i32
    linalg.yield %m : i32
  }
  scf.if %p {
    "memref.copy"(%a, %b) {tag = 3 : i32} : (memref<16xi32>, memref<16xi32>) -> ()
  }
  "memref.copy"(%b, %c) {tag = 4 : i32} : (memref<16xi32>, memref<16xi32>) -> ()
  func.return
}
