// E01-a: the state is reset right after its first launch although a nested region launches it again
// before accfg-insert-resets:
func.func @f(%v0: i32, %v1: i32, %v2: i32, %n0: index, %n1: index, %b0: i1, %b1: i1) {
  %k0 = arith.constant 0 : i32
  %k1 = arith.constant 1 : i32
  %x1 = arith.muli %v2, %v2 : i32
  %x2 = arith.addi %k0, %v1 : i32
  %x3 = arith.addi %k0, %v0 : i32
  %s4 = accfg.setup "snax_alu" to ("a" = %x1 : i32, "b" = %x2 : i32, "mode" = %x3 : i32) : !accfg.state<"snax_alu">
  %t5 = "accfg.launch"(%s4) <{param_names = [], accelerator = "snax_alu"}> : (!accfg.state<"snax_alu">) -> !accfg.token<"snax_alu">
  "accfg.await"(%t5) : (!accfg.token<"snax_alu">) -> ()
  %x6 = arith.subi %v2, %v0 : i32
  %x7 = arith.addi %k1, %v1 : i32
  %s8 = accfg.setup "snax_alu" from %s4 to ("a" = %x6 : i32, "b" = %k1 : i32, "mode" = %x7 : i32) : !accfg.state<"snax_alu">
  %t9 = "accfg.launch"(%s8) <{param_names = [], accelerator = "snax_alu"}> : (!accfg.state<"snax_alu">) -> !accfg.token<"snax_alu">
  "accfg.await"(%t9) : (!accfg.token<"snax_alu">) -> ()
  scf.if %b1 {
    %t10 = "accfg.launch"(%s8) <{param_names = [], accelerator = "snax_alu"}> : (!accfg.state<"snax_alu">) -> !accfg.token<"snax_alu">
    "accfg.await"(%t10) : (!accfg.token<"snax_alu">) -> ()
  }
  func.return
}
// after:
// func.func @f(%v0: i32, %v1: i32, %v2: i32, %n0: index, %n1: index, %b0: i1, %b1: i1) {
//   %k0 = arith.constant 0 : i32
//   %k1 = arith.constant 1 : i32
//   %x1 = arith.muli %v2, %v2 : i32
//   %x2 = arith.addi %k0, %v1 : i32
//   %x3 = arith.addi %k0, %v0 : i32
//   %s4 = accfg.setup "snax_alu" to ("a" = %x1 : i32, "b" = %x2 : i32, "mode" = %x3 : i32) : !accfg.state<"snax_alu">
//   %t5 = "accfg.launch"(%s4) <{param_names = [], accelerator = "snax_alu"}> : (!accfg.state<"snax_alu">) -> !accfg.token<"snax_alu">
//   "accfg.await"(%t5) : (!accfg.token<"snax_alu">) -> ()
//   %x6 = arith.subi %v2, %v0 : i32
//   %x7 = arith.addi %k1, %v1 : i32
//   %s8 = accfg.setup "snax_alu" from %s4 to ("a" = %x6 : i32, "b" = %k1 : i32, "mode" = %x7 : i32) : !accfg.state<"snax_alu">
//   %t9 = "accfg.launch"(%s8) <{param_names = [], accelerator = "snax_alu"}> : (!accfg.state<"snax_alu">) -> !accfg.token<"snax_alu">
//   "accfg.await"(%t9) : (!accfg.token<"snax_alu">) -> ()
//   accfg.reset %s8 : !accfg.state<"snax_alu">
//   scf.if %b1 {
//     %t10 = "accfg.launch"(%s8) <{param_names = [], accelerator = "snax_alu"}> : (!accfg.state<"snax_alu">) -> !accfg.token<"snax_alu">
//     "accfg.await"(%t10) : (!accfg.token<"snax_alu">) -> ()
//     accfg.reset %s8 : !accfg.state<"snax_alu">
//   }
//   func.return
// }
