// E01-b: %s2 is consumed by a yield on one path only; on the other path no reset is inserted
// before accfg-insert-resets:
func.func @f(%v0: i32, %v1: i32, %v2: i32, %n0: index, %n1: index, %b0: i1, %b1: i1) {
  %c1 = arith.constant 1 : index
  %k0 = arith.constant 0 : i32
  %x1 = arith.addi %v1, %v2 : i32
  %s2 = accfg.setup "snax_hwpe_mult" to ("A" = %x1 : i32, "B" = %v0 : i32, "O" = %v1 : i32) : !accfg.state<"snax_hwpe_mult">
  %t3 = "accfg.launch"(%s2) <{param_names = [], accelerator = "snax_hwpe_mult"}> : (!accfg.state<"snax_hwpe_mult">) -> !accfg.token<"snax_hwpe_mult">
  "accfg.await"(%t3) : (!accfg.token<"snax_hwpe_mult">) -> ()
  scf.if %b1 {
    %0 = scf.if %b1 -> (!accfg.state<"snax_hwpe_mult">) {
      scf.yield %s2 : !accfg.state<"snax_hwpe_mult">
    } else {
      %x4 = arith.muli %v1, %k0 : i32
      %s5 = accfg.setup "snax_hwpe_mult" from %s2 to ("A" = %v0 : i32, "B" = %v1 : i32, "O" = %x4 : i32) : !accfg.state<"snax_hwpe_mult">
      %t6 = "accfg.launch"(%v2, %s5) <{param_names = ["launch"], accelerator = "snax_hwpe_mult"}> : (i32, !accfg.state<"snax_hwpe_mult">) -> !accfg.token<"snax_hwpe_mult">
      "accfg.await"(%t6) : (!accfg.token<"snax_hwpe_mult">) -> ()
      scf.yield %s5 : !accfg.state<"snax_hwpe_mult">
    }
    func.call @ext() : () -> ()
  } else {
    %1 = accfg.setup "snax_alu" to ("b" = %v1 : i32) : !accfg.state<"snax_alu">
    %2 = scf.for %i7 = %c1 to %n0 step %c1 iter_args(%3 = %1) -> (!accfg.state<"snax_alu">) {
      %ic8 = arith.index_cast %i7 : index to i32
      %x9 = arith.addi %ic8, %v1 : i32
      %s10 = accfg.setup "snax_alu" from %3 to ("a" = %x9 : i32, "mode" = %ic8 : i32) : !accfg.state<"snax_alu">
      %t11 = "accfg.launch"(%s10) <{param_names = [], accelerator = "snax_alu"}> : (!accfg.state<"snax_alu">) -> !accfg.token<"snax_alu">
      "accfg.await"(%t11) : (!accfg.token<"snax_alu">) -> ()
      scf.yield %s10 : !accfg.state<"snax_alu">
    }
  }
  func.return
}
// after:
// func.func @f(%v0: i32, %v1: i32, %v2: i32, %n0: index, %n1: index, %b0: i1, %b1: i1) {
//   %c1 = arith.constant 1 : index
//   %k0 = arith.constant 0 : i32
//   %x1 = arith.addi %v1, %v2 : i32
//   %s2 = accfg.setup "snax_hwpe_mult" to ("A" = %x1 : i32, "B" = %v0 : i32, "O" = %v1 : i32) : !accfg.state<"snax_hwpe_mult">
//   %t3 = "accfg.launch"(%s2) <{param_names = [], accelerator = "snax_hwpe_mult"}> : (!accfg.state<"snax_hwpe_mult">) -> !accfg.token<"snax_hwpe_mult">
//   "accfg.await"(%t3) : (!accfg.token<"snax_hwpe_mult">) -> ()
//   scf.if %b1 {
//     %0 = scf.if %b1 -> (!accfg.state<"snax_hwpe_mult">) {
//       scf.yield %s2 : !accfg.state<"snax_hwpe_mult">
//     } else {
//       %x4 = arith.muli %v1, %k0 : i32
//       %s5 = accfg.setup "snax_hwpe_mult" from %s2 to ("A" = %v0 : i32, "B" = %v1 : i32, "O" = %x4 : i32) : !accfg.state<"snax_hwpe_mult">
//       %t6 = "accfg.launch"(%v2, %s5) <{param_names = ["launch"], accelerator = "snax_hwpe_mult"}> : (i32, !accfg.state<"snax_hwpe_mult">) -> !accfg.token<"snax_hwpe_mult">
//       "accfg.await"(%t6) : (!accfg.token<"snax_hwpe_mult">) -> ()
//       scf.yield %s5 : !accfg.state<"snax_hwpe_mult">
//     }
//     accfg.reset %0 : !accfg.state<"snax_hwpe_mult">
//     func.call @ext() : () -> ()
//   } else {
//     %1 = accfg.setup "snax_alu" to ("b" = %v1 : i32) : !accfg.state<"snax_alu">
//     %2 = scf.for %i7 = %c1 to %n0 step %c1 iter_args(%3 = %1) -> (!accfg.state<"snax_alu">) {
//       %ic8 = arith.index_cast %i7 : index to i32
//       %x9 = arith.addi %ic8, %v1 : i32
//       %s10 = accfg.setup "snax_alu" from %3 to ("a" = %x9 : i32, "mode" = %ic8 : i32) : !accfg.state<"snax_alu">
//       %t11 = "accfg.launch"(%s10) <{param_names = [], accelerator = "snax_alu"}> : (!accfg.state<"snax_alu">) -> !accfg.token<"snax_alu">
//       "accfg.await"(%t11) : (!accfg.token<"snax_alu">) -> ()
//       scf.yield %s10 : !accfg.state<"snax_alu">
//     }
//     accfg.reset %2 : !accfg.state<"snax_alu">
//   }
//   func.return
// }
