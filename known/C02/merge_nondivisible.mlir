builtin.module {
func.func public @f(%a : memref<2x3x4xi64, strided<[1, 2, 6]>>, %b : memref<2x3x4xi64, strided<[1, 2, 6]>>, %c : memref<2x3x4xi64, strided<[1, 2, 6]>>) {
  "dart.operation"(%a, %b, %c) <{patterns = [affine_map<(d0, d1, d2) -> (d0, d1, d2)>, affine_map<(d0, d1, d2) -> (d0, d1, d2)>, affine_map<(d0, d1, d2) -> (d0, d1, d2)>], accelerator = "snax_alu", operandSegmentSizes = array<i32: 2, 1>}> ({
  ^bb0(%0 : !dart.stream<i64>, %1 : !dart.stream<i64>, %2 : !dart.stream<i64>):
    %3 = "dart.generic"(%0, %1) <{library_call = "snax_alu"}> ({
    ^bb1(%x : i64, %y : i64, %z : i64):
      %4 = kernel.add %x, %y : i64, i64 -> i64
      dart.yield %4 : i64
    }) : (!dart.stream<i64>, !dart.stream<i64>) -> !dart.stream<i64>
    dart.yield %3 : !dart.stream<i64>
  }) : (memref<2x3x4xi64, strided<[1, 2, 6]>>, memref<2x3x4xi64, strided<[1, 2, 6]>>, memref<2x3x4xi64, strided<[1, 2, 6]>>) -> ()
  func.return
}
}
