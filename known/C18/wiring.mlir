#map = affine_map<(d0) -> (d0)>
func.func @f(%A : memref<8xi32>, %B : memref<8xi32>, %C : memref<8xi32>) {
  linalg.generic {indexing_maps = [#map, #map, #map], iterator_types = ["parallel"]} ins(%A, %B : memref<8xi32>, memref<8xi32>) outs(%C : memref<8xi32>) {
  ^bb0(%a : i32, %b : i32, %c : i32):
    %m = arith.muli %a, %a : i32
    %r = arith.addi %m, %m : i32
    linalg.yield %r : i32
  }
  func.return
}
