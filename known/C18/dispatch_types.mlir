#map = affine_map<(d0) -> (d0)>
func.func @f(%A : memref<8xi8>, %B : memref<8xi8>, %C : memref<8xi8>) {
  linalg.generic {indexing_maps = [#map, #map, #map], iterator_types = ["parallel"]} ins(%A, %B : memref<8xi8>, memref<8xi8>) outs(%C : memref<8xi8>) {
  ^bb0(%a : i8, %b : i8, %c : i8):
    %r = kernel.add %a, %b : i8, i8 -> i8
    linalg.yield %r : i8
  }
  func.return
}
