"""Generator of accfg programs "of the lowering's form": full-field setup + launch + await
invocations composed with scf.for / scf.if / opaque calls / pure arithmetic.
Produces MLIR text plus the oracle domains of the function arguments."""
from __future__ import annotations

import random

ACCS = {
    "snax_hwpe_mult": ["A", "B", "O", "n"],
    "snax_alu": ["a", "b", "mode"],
}


class Gen:
    def __init__(self, rng: random.Random, n_accs=1, n_fields=3, max_depth=3, max_inv=6,
                 launch_vals=False, carried=True, effects=True, pre_threaded=False, chains=False,
                 one_setup_per_loop_nest=False, acc_specs=None, relaunch=True, flat_loops=False, index_vals=False, early_inputs=False):
        self.rng = rng
        self.acc_specs = acc_specs
        self.early_inputs = early_inputs
        self.prefer = []
        if acc_specs:
            self.accs = list(acc_specs)
            self.fields = {a: acc_specs[a]["fields"] for a in self.accs}
        else:
            self.accs = list(ACCS)[:n_accs]
            self.fields = {a: ACCS[a][:n_fields] for a in self.accs}
        self.max_depth = max_depth
        self.max_inv = max_inv
        self.n = 0
        self.inv = 0
        self.lines: list[str] = []
        self.launch_vals = launch_vals
        self.carried = carried
        self.effects = effects
        self.chains = chains
        self.used_ext = set()
        self.one_setup_per_loop_nest = one_setup_per_loop_nest
        self.nest_used = None  # accelerators already invoked in the current outermost loop nest
        self.last_vals = {}
        self.relaunch = relaunch
        self.index_vals = index_vals
        self.flat_loops = flat_loops      # loops are never nested in loops (any number of setups per loop body)
        self.loop_depth = 0

    def fresh(self, p="x"):
        self.n += 1
        return f"%{p}{self.n}"

    def emit(self, ind, s):
        self.lines.append("  " * ind + s)

    def value(self, ind, pool):
        """pick (maybe compute) an i32 value from the pool"""
        r = self.rng.random()
        if r < 0.55 or len(pool) < 2:
            return self.rng.choice(pool)
        a, b = self.rng.choice(pool), self.rng.choice(pool)
        v = self.fresh()
        op = self.rng.choice(["arith.addi", "arith.addi", "arith.muli", "arith.subi"])
        self.emit(ind, f"{v} = {op} {a}, {b} : i32")
        if self.chains and self.rng.random() < 0.5:
            w = self.fresh()
            self.emit(ind, f"{w} = arith.addi {v}, {self.rng.choice(pool)} : i32")
            return w
        return v

    def invocation(self, ind, pool, ivpool):
        acc = self.rng.choice(self.accs)
        if self.one_setup_per_loop_nest and self.nest_used is not None:
            free = [a for a in self.accs if a not in self.nest_used]
            if not free:
                v = self.fresh()
                self.emit(ind, f"{v} = arith.addi {self.rng.choice(pool)}, {self.rng.choice(pool)} : i32")
                return
            acc = self.rng.choice(free)
            self.nest_used.add(acc)
        fs = self.fields[acc]
        vals = []
        last = self.last_vals.get(acc)
        if last is not None and self.rng.random() < 0.22 and all(v in pool or v in ivpool for v in last):
            # an invocation that repeats the previous configuration of this accelerator completely: dedup removes the whole setup and the
            # launch re-uses the earlier state (also from inside a nested region)
            vals = list(last)
        else:
            for f in fs:
                p = pool + ivpool * 2 if ivpool else pool
                early = [v for v in self.prefer if v in pool]
                if early and self.rng.random() < 0.5:
                    vals.append(self.rng.choice(early))      # a value that was computed between the previous launch and its await
                else:
                    vals.append(self.value(ind, p))
            self.prefer = []
        self.last_vals[acc] = list(vals)
        s, t = self.fresh("s"), self.fresh("t")
        # index-typed values (two arguments of one block): the lowering has to bring each of them to the register width itself
        tys = {}
        if self.index_vals:
            for j in range(len(vals)):
                if self.rng.random() < 0.12:
                    vals[j] = self.rng.choice(["%n0", "%n1"])
                    tys[vals[j]] = "index"
        pairs = list(zip(fs, vals))
        if self.rng.random() < 0.3:
            self.rng.shuffle(pairs)          # fields are named: the order in which a setup lists them is free
        args = ", ".join(f'"{f}" = {v} : {tys.get(v, "i32")}' for f, v in pairs)
        self.emit(ind, f'{s} = accfg.setup "{acc}" to ({args}) : !accfg.state<"{acc}">')
        if self.acc_specs:
            ln = list(self.acc_specs[acc]["launch"])
            if self.rng.random() < 0.3:
                self.rng.shuffle(ln)         # launch values are named as well
            lvs = [self.rng.choice(pool) for _ in ln]
            names = ", ".join(f'"{x}"' for x in ln)
            tys = ", ".join(["i32"] * len(ln) + [f'!accfg.state<"{acc}">'])
            self.emit(ind, f'{t} = "accfg.launch"({", ".join(lvs + [s])}) <{{param_names = [{names}], accelerator = "{acc}"}}> : ({tys}) -> !accfg.token<"{acc}">')
        elif self.launch_vals and self.rng.random() < 0.5:
            lv = self.rng.choice(pool)
            self.emit(ind, f'{t} = "accfg.launch"({lv}, {s}) <{{param_names = ["launch"], accelerator = "{acc}"}}> : (i32, !accfg.state<"{acc}">) -> !accfg.token<"{acc}">')
        else:
            self.emit(ind, f'{t} = "accfg.launch"({s}) <{{param_names = [], accelerator = "{acc}"}}> : (!accfg.state<"{acc}">) -> !accfg.token<"{acc}">')
        new = []
        if self.early_inputs and self.rng.random() < 0.3:
            # partially overlapped code: inputs of the NEXT configuration are already computed while the accelerator runs
            for _ in range(self.rng.randint(1, 2)):
                v = self.fresh()
                self.emit(ind, f"{v} = arith.{self.rng.choice(['addi', 'muli'])} {self.rng.choice(pool + ivpool)}, {self.rng.choice(pool)} : i32")
                new.append(v)
            self.prefer = list(new)
        self.emit(ind, f'"accfg.await"({t}) : (!accfg.token<"{acc}">) -> ()')
        if new and self.rng.random() < 0.5:
            v = self.fresh()
            self.emit(ind, f"{v} = arith.addi {new[-1]}, {self.rng.choice(pool)} : i32")     # ... and some more behind the await
            new.append(v)
            self.prefer.append(v)
        self.inv += 1
        if self.relaunch and not self.acc_specs and self.rng.random() < 0.15:
            # the same configuration is launched again from inside a nested region that contains no setup (conditional / repeated re-launch)
            t2 = self.fresh("t")
            if self.rng.random() < 0.5:
                self.emit(ind, f"scf.if {self.rng.choice(['%b0', '%b1'])} {{")
            else:
                self.emit(ind, f"scf.for {self.fresh('i')} = %c0 to {self.rng.choice(['%c2', '%n0', '%n0'])} step %c1 {{")
            self.emit(ind + 1, f'{t2} = "accfg.launch"({s}) <{{param_names = [], accelerator = "{acc}"}}> : (!accfg.state<"{acc}">) -> !accfg.token<"{acc}">')
            self.emit(ind + 1, f'"accfg.await"({t2}) : (!accfg.token<"{acc}">) -> ()')
            self.emit(ind, "}")
        return new

    def block(self, ind, depth, pool, ivpool, n_items=None):
        n_items = n_items or self.rng.randint(1, 3)
        for _ in range(n_items):
            r = self.rng.random()
            if self.inv >= self.max_inv:
                r = 0.0 if r < 0.5 else 0.97
            if r < 0.45 or depth >= self.max_depth:
                if self.inv < self.max_inv:
                    pool = pool + (self.invocation(ind, pool, ivpool) or [])
            elif r < 0.70:
                pool = pool + self.for_loop(ind, depth, pool, ivpool)
            elif r < 0.86:
                pool = pool + self.if_op(ind, depth, pool, ivpool)
            elif r < 0.93 and self.effects:
                self.opaque(ind, pool)
            elif r < 0.965 and self.effects:
                self.call_only_if(ind, pool)
            else:
                v = self.fresh()
                self.emit(ind, f"{v} = arith.addi {self.rng.choice(pool)}, {self.rng.choice(pool)} : i32")
                pool = pool + [v]

    def for_loop(self, ind, depth, pool, ivpool):
        if self.flat_loops and self.loop_depth >= 1:
            v = self.fresh()
            self.emit(ind, f"{v} = arith.addi {self.rng.choice(pool)}, {self.rng.choice(pool)} : i32")
            return [v]
        lb = self.rng.choice(["%c0", "%c0", "%c1", "%n1"])
        ub = self.rng.choice(["%c2", "%c3", "%n0", "%n0", "%n0"])
        st = self.rng.choice(["%c1", "%c1", "%c2"])
        i = self.fresh("i")
        carried = self.carried and self.rng.random() < 0.4
        ncar = self.rng.choice([1, 2, 2]) if carried else 0
        ps = [self.fresh("p") for _ in range(ncar)]
        ress = [self.fresh("r") for _ in range(ncar)]
        if carried:
            inits = [self.rng.choice(pool) for _ in range(ncar)]
            ia = ", ".join(f"{p} = {v}" for p, v in zip(ps, inits))
            self.emit(ind, f"{', '.join(ress)} = scf.for {i} = {lb} to {ub} step {st} iter_args({ia}) -> ({', '.join(['i32'] * ncar)}) {{")
        else:
            self.emit(ind, f"scf.for {i} = {lb} to {ub} step {st} {{")
        ic = self.fresh("ic")
        self.emit(ind + 1, f"{ic} = arith.index_cast {i} : index to i32")
        inner_iv = [ic] + ps
        outermost = self.nest_used is None
        if outermost:
            self.nest_used = set()
        self.loop_depth += 1
        self.block(ind + 1, depth + 1, pool, ivpool + inner_iv)
        self.loop_depth -= 1
        if outermost:
            self.nest_used = None
        if carried:
            qs = []
            for p in ps:
                q = self.fresh("q")
                self.emit(ind + 1, f"{q} = arith.addi {p}, {self.rng.choice(pool + [ic])} : i32")
                qs.append(q)
            self.emit(ind + 1, f"scf.yield {', '.join(qs)} : {', '.join(['i32'] * ncar)}")
        self.emit(ind, "}")
        return ress

    def cond(self, ind, pool):
        r = self.rng.random()
        if r < 0.5:
            return self.rng.choice(["%b0", "%b1"])
        if r < 0.75:
            c = self.fresh("cc")
            self.emit(ind, f"{c} = arith.cmpi slt, {self.rng.choice(pool)}, {self.rng.choice(pool)} : i32")
            return c
        c = self.fresh("cc")
        self.emit(ind, f'{c} = "test.op"() : () -> i1')
        return c

    def if_op(self, ind, depth, pool, ivpool):
        c = self.cond(ind, pool)
        if self.carried and self.rng.random() < 0.3:
            r1, r2 = self.fresh("y"), self.fresh("y")
            self.emit(ind, f"{r1}, {r2} = scf.if {c} -> (i32, i32) {{")
            self.block(ind + 1, depth + 1, pool, ivpool, self.rng.randint(1, 2))
            self.emit(ind + 1, f"scf.yield {self.rng.choice(pool + ivpool)}, {self.rng.choice(pool + ivpool)} : i32, i32")
            self.emit(ind, "} else {")
            self.block(ind + 1, depth + 1, pool, ivpool, self.rng.randint(1, 2))
            self.emit(ind + 1, f"scf.yield {self.rng.choice(pool + ivpool)}, {self.rng.choice(pool + ivpool)} : i32, i32")
            self.emit(ind, "}")
            return [r1, r2]
        if self.rng.random() < 0.25 and self.inv < self.max_inv:
            # only the else-arm reconfigures the accelerator; the then-arm leaves it alone
            self.emit(ind, f"scf.if {c} {{")
            if self.rng.random() < 0.5:
                self.emit(ind + 1, f"{self.fresh()} = arith.addi {self.rng.choice(pool)}, {self.rng.choice(pool)} : i32")
            self.emit(ind, "} else {")
            self.invocation(ind + 1, pool, ivpool)
            self.emit(ind, "}")
            return []
        self.emit(ind, f"scf.if {c} {{")
        self.block(ind + 1, depth + 1, pool, ivpool, self.rng.randint(1, 2))
        if self.rng.random() < 0.6:
            self.emit(ind, "} else {")
            self.block(ind + 1, depth + 1, pool, ivpool, self.rng.randint(1, 2))
        self.emit(ind, "}")
        return []

    def call_only_if(self, ind, pool):
        """an scf.if whose arms contain no accelerator operation, only calls: the accelerator may be reconfigured behind the compiler's
        back on one path although the conditional produces no new state"""
        c = self.cond(ind, pool)
        self.emit(ind, f"scf.if {c} {{")
        self.emit(ind + 1, "func.call @ext() : () -> ()")
        self.used_ext.add("ext")
        r = self.rng.random()
        if r < 0.3:
            self.emit(ind, "} else {")
            self.emit(ind + 1, "func.call @ext_safe() {accfg.effects = #accfg.effects<none>} : () -> ()")
            self.used_ext.add("ext_safe")
        elif r < 0.45:
            self.emit(ind, "} else {")
            self.emit(ind + 1, f'"test.op"({self.rng.choice(pool)}) : (i32) -> ()')
        self.emit(ind, "}")

    def opaque(self, ind, pool):
        r = self.rng.random()
        if r < 0.4:
            self.emit(ind, "func.call @ext() : () -> ()")
            self.used_ext.add("ext")
        elif r < 0.7:
            self.emit(ind, "func.call @ext_safe() {accfg.effects = #accfg.effects<none>} : () -> ()")
            self.used_ext.add("ext_safe")
        else:
            self.emit(ind, f'"test.op"({self.rng.choice(pool)}) : (i32) -> ()')

    def program(self):
        pool = ["%v0", "%v1", "%v2", "%k0", "%k1"]
        self.emit(2, "%c0 = arith.constant 0 : index")
        self.emit(2, "%c1 = arith.constant 1 : index")
        self.emit(2, "%c2 = arith.constant 2 : index")
        self.emit(2, "%c3 = arith.constant 3 : index")
        self.emit(2, "%k0 = arith.constant 0 : i32")
        self.emit(2, "%k1 = arith.constant 1 : i32")
        self.block(2, 1, pool, [], self.rng.randint(2, 4))
        self.emit(2, "func.return")
        body = "\n".join(self.lines)
        decls = "".join(f"  func.func private @{e}() -> ()\n" for e in sorted(self.used_ext))
        text = ("builtin.module {\n" + decls +
                "  func.func @f(%v0: i32, %v1: i32, %v2: i32, %n0: index, %n1: index, %b0: i1, %b1: i1) {\n"
                + body + "\n  }\n}\n")
        used = lambda a: (a + " ") in body or (a + ",") in body or (a + ")") in body or (a + "\n") in body
        argdom = [[11], [12], [13],
                  [0, 1, 2, 3] if used("%n0") else [2],
                  [0, 1, 2] if used("%n1") else [0],
                  [0, 1] if used("%b0") else [0],
                  [0, 1] if used("%b1") else [0]]
        opq = [[0, 1], [1, 0]] if '"test.op"() : () -> i1' in body else [[0]]
        return text, argdom, opq


def generate(seed: int, k: int, **kw):
    rng = random.Random(seed * 1000003 + k)
    cfg = dict(n_accs=rng.choice([1, 1, 2]), n_fields=rng.choice([2, 3]), max_depth=rng.choice([2, 3, 3]),
               max_inv=rng.choice([3, 4, 6]), launch_vals=rng.random() < 0.3)
    cfg.update(kw)
    g = Gen(rng, **cfg)
    return g.program()
