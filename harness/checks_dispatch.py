"""C14: dispatch-regions runs each operation on exactly the cores it belongs to."""
from __future__ import annotations

import random
import traceback

import repo  # noqa: F401
from common import KnownFindings, MachineryError, Report, text_hash
from export_ir import funcs_of
from pairs import image_of, oracle_at, run_pair_batch

ID = "affine_map<(d0) -> (d0)>"


def xdma_kernel_table():
    """Kernels declared by the xDMA streamer extensions: (op name, 'in,in->out')."""
    from snaxc.accelerators.streamers.extensions import XDMA_EXT_SET
    out = []
    for ext in XDMA_EXT_SET:
        sk = getattr(ext, "supported_kernel", None)
        if sk is None:
            continue
        types = [str(t) for t in sk.operand_types]
        name = sk.kernel_type.name
        item = [name, ",".join(types[:-1]) + "->" + types[-1]]
        if item not in out:
            out.append(item)
    return out


class Gen:
    def __init__(self, rng, with_dart=True):
        self.rng = rng
        self.lines = []
        self.tag = 0
        self.n = 0
        self.with_dart = with_dart

    def emit(self, ind, s):
        self.lines.append("  " * ind + s)

    def bufs(self, k):
        return self.rng.sample(["%a", "%b", "%c", "%d"], k)

    def op(self, ind):
        self.tag += 1
        r = self.rng.random()
        if r < 0.3:
            x, y = self.bufs(2)
            self.emit(ind, f'"memref.copy"({x}, {y}) {{tag = {self.tag} : i32}} : (memref<16xi32>, memref<16xi32>) -> ()')
        elif r < 0.55:
            x, y, z = self.bufs(3)
            self.emit(ind, f'linalg.generic {{indexing_maps = [{ID}, {ID}, {ID}], iterator_types = ["parallel"]}} ins({x}, {y} : memref<16xi32>, memref<16xi32>) outs({z} : memref<16xi32>) attrs = {{tag = {self.tag} : i32}} {{')
            self.emit(ind, "^bb0(%x : i32, %y : i32, %z : i32):")
            self.emit(ind + 1, "%m = arith.muli %x, %y : i32")
            self.emit(ind + 1, "linalg.yield %m : i32")
            self.emit(ind, "}")
        elif r < 0.7 and self.with_dart:
            x, y, z = self.bufs(3)
            acc = self.rng.choice(["snax_alu", "snax_xdma"])
            ty = "i32"
            self.emit(ind, f'"dart.operation"({x}, {y}, {z}) <{{patterns = [{ID}, {ID}, {ID}], accelerator = "{acc}", operandSegmentSizes = array<i32: 2, 1>}}> ({{')
            self.emit(ind, f"^bb0(%s0 : !dart.stream<{ty}>, %s1 : !dart.stream<{ty}>, %s2 : !dart.stream<{ty}>):")
            self.emit(ind + 1, f'%s3 = "dart.generic"(%s0, %s1) <{{library_call = "{acc}"}}> ({{')
            self.emit(ind + 1, f"^bb1(%k0 : {ty}, %k1 : {ty}, %k2 : {ty}):")
            self.emit(ind + 2, f"%k3 = kernel.add %k0, %k1 : {ty}, {ty} -> {ty}")
            self.emit(ind + 2, f"dart.yield %k3 : {ty}")
            self.emit(ind + 1, f"}}) : (!dart.stream<{ty}>, !dart.stream<{ty}>) -> !dart.stream<{ty}>")
            self.emit(ind + 1, f"dart.yield %s3 : !dart.stream<{ty}>")
            self.emit(ind, f"}}) {{tag = {self.tag} : i32}} : (memref<16x{ty}>, memref<16x{ty}>, memref<16x{ty}>) -> ()")
        elif r < 0.78 and self.with_dart:
            # one-input region on the xDMA: rescale down / up, kernels of two different extensions that share the kernel op class
            # (a kernel no extension declares cannot be executed by the xDMA at all and is not generated)
            ti, to, src, dst = self.rng.choice([("i32", "i8", self.rng.choice(["%a", "%b"]), "%e"), ("i8", "i32", "%g", self.rng.choice(["%c", "%d"]))])
            self.emit(ind, f'"dart.operation"({src}, {dst}) <{{patterns = [{ID}, {ID}], accelerator = "snax_xdma", operandSegmentSizes = array<i32: 1, 1>}}> ({{')
            self.emit(ind, f"^bb0(%s0 : !dart.stream<{ti}>, %s1 : !dart.stream<{to}>):")
            self.emit(ind + 1, '%s3 = "dart.generic"(%s0) <{library_call = "snax_xdma"}> ({')
            self.emit(ind + 1, f"^bb1(%k0 : {ti}, %k2 : {to}):")
            self.emit(ind + 2, f"%k3 = kernel.rescale %k0 {{input_zp = 1 : i32, output_zp = -2 : i32, multiplier = array<i32: 1234>, shift = array<i8: 9>, min_int = -128 : i32, max_int = 127 : i32, double_round = false}} : ({ti}) -> {to}")
            self.emit(ind + 2, f"dart.yield %k3 : {to}")
            self.emit(ind + 1, f"}}) : (!dart.stream<{ti}>) -> !dart.stream<{to}>")
            self.emit(ind + 1, f"dart.yield %s3 : !dart.stream<{to}>")
            self.emit(ind, f"}}) {{tag = {self.tag} : i32}} : (memref<16x{ti}>, memref<16x{to}>) -> ()")
        elif r < 0.88:
            self.emit(ind, f'"test.op"() {{tag = {self.tag} : i32}} : () -> ()')
        else:
            self.emit(ind, '"snax.cluster_sync_op"() : () -> ()')

    def block(self, ind, depth):
        for _ in range(self.rng.randint(1, 4)):
            r = self.rng.random()
            if r < 0.6 or depth >= 3:
                self.op(ind)
            elif r < 0.8:
                self.n += 1
                self.emit(ind, f"scf.for %i{self.n} = %c0 to {self.rng.choice(['%c1', '%c2', '%c3', '%n'])} step %c1 {{")
                self.block(ind + 1, depth + 1)
                self.emit(ind, "}")
            else:
                self.emit(ind, f"scf.if {self.rng.choice(['%p', '%q'])} {{")
                self.block(ind + 1, depth + 1)
                if self.rng.random() < 0.5:
                    self.emit(ind, "} else {")
                    self.block(ind + 1, depth + 1)
                self.emit(ind, "}")

    def program(self):
        for c in range(4):
            self.emit(2, f"%c{c} = arith.constant {c} : index")
        # some modules already declare the core-index function and query it for their own use (a kernel that is partly dispatched by hand)
        own = self.rng.random() < 0.2
        if own:
            self.tag += 1
            self.emit(2, "%own = func.call @snax_cluster_core_idx() : () -> i32")
            self.emit(2, f'"test.op"(%own) {{tag = {self.tag} : i32}} : (i32) -> ()')
        self.block(2, 1)
        self.emit(2, "func.return")
        body = "\n".join(self.lines)
        decl = "  func.func private @snax_cluster_core_idx() -> i32\n" if own else ""
        return ("builtin.module {\n" + decl + "  func.func public @f(%a : memref<16xi32>, %b : memref<16xi32>, %c : memref<16xi32>, %d : memref<16xi32>, "
                "%e : memref<16xi8>, %g : memref<16xi8>, %n : index, %p : i1, %q : i1) {\n" + body + "\n  }\n}\n"), body


def run(pid: str, tier: str, seed: int, selftest=False, replay=None) -> int:
    rep = Report(pid, tier, seed)
    known = KnownFindings()
    n = 250 if tier == "quick" else 4000
    xk = xdma_kernel_table()
    ctx = repo.opt_main().ctx
    if "snax_xdma" not in ctx.registered_accelerator_names:
        from snaxc.accelerators.snax_xdma import SNAXXDMAAccelerator
        ctx.register_accelerator("snax_xdma", lambda: SNAXXDMAAccelerator())   # as snaxc does for a cluster with an xDMA
    rep.extra["xdma_extension_kernels"] = xk
    cases = []
    # exhaustive small scope (spec/SeqGen.tla): every sequence / nesting (for, if/else; depth <= 2) of <= 3 (thorough: 4) copies, compute ops,
    # readers and barriers
    from gen_seq import render_ops, tlc_sequences
    rg, seqs = tlc_sequences(pid, 8, 3 if tier == "quick" else 4, 2, True)
    rep.add_tlc(rg)
    rep.extra["small_scope_programs"] = len(seqs)
    jobs = []
    for q, toks in enumerate(seqs):
        text, body, un, up = render_ops(toks, False)
        jobs.append(("small:" + " ".join(toks), text, [[900001], [900002], [900003], [0, 1, 2] if un else [1], [0, 1] if up else [0]], [2 + q % 3], False))
    for k in range(n):
        rng = random.Random(seed * 15485863 + k)
        text, body = Gen(rng).program()
        used = lambda a: any((a + t) in body for t in (" ", ",", ")", "\n"))
        argdom = [[900001], [900002], [900003], [900004], [900005], [900006], [0, 1, 2] if used("%n") else [1], [0, 1] if used("%p") else [0], [0, 1] if used("%q") else [0]]
        jobs.append((f"gen:{seed}:{k}", text, argdom, rng.sample([2, 3, 4, 5], 2), k % 3 == 0))
    for name, text, argdom, corecounts, pinning in jobs:
        try:
            src = repo.parse(text)
            src.verify()
        except Exception as e:
            raise MachineryError(f"generator produced invalid input {name}: {e}\n{text}")
        for ncores in corecounts:
            m = src.clone()
            try:
                repo.run_pipeline(m, f"dispatch-regions{{nb_cores={ncores}}}")
            except Exception as e:
                rep.evaluations += 1
                rep.violation(f"{name}|N={ncores}", f"dispatch-regions raised {type(e).__name__}: {str(e)[:200]}",
                              {"source": text, "exception": traceback.format_exc(limit=8)})
                continue
            ia, ib = image_of(funcs_of(src)["f"]), image_of(funcs_of(m)["f"])
            cases.append({"name": f"{name}|N={ncores}", "A": ia, "B": ib, "argdom": argdom, "opqdom": [[0]], "coredom": list(range(ncores)),
                          "extra": {"ncores": ncores, "xk": xk}, "text": text, "after": str(funcs_of(m)["f"])})
            # pinning the core id to a constant (xDSL's function-constant-pinning driven by the emitted pin_to_constants attribute)
            if pinning and "snax_cluster_core_idx" in str(m):
                pm = m.clone()
                try:
                    repo.run_pipeline(pm, "function-constant-pinning")
                except Exception as e:
                    rep.extra["pinning_note"] = f"function-constant-pinning not runnable: {type(e).__name__}"
                    continue
                pins = set()
                for fname, fn in funcs_of(pm).items():
                    if not fname.startswith("f_pinned"):
                        continue
                    first = fn.body.block.first_op
                    if first is None or first.name != "arith.constant":
                        continue
                    pin = first.properties["value"].value.data
                    pins.add(pin)
                    cases.append({"name": f"{name}|N={ncores}|pinned={pin}", "A": ia, "B": image_of(fn), "argdom": argdom, "opqdom": [[0]],
                                  "coredom": [pin], "extra": {"ncores": ncores, "xk": xk}, "text": text, "after": str(fn)})
                rep.extra["pinned_clones"] = rep.extra.get("pinned_clones", 0) + len(pins)
                if pins and pins != set(range(ncores)) - {max(set(range(ncores)) - pins, default=-1)} and len(pins) < ncores - 1:
                    rep.violation(f"{name}|N={ncores}|pins", f"pinning produced clones for core ids {sorted(pins)} only (nb_cores={ncores})",
                                  {"source": text, "after": str(pm)[:4000]})
    rep.rule = (f"{n} generated functions (memref.copy, linalg.generic, dart.operation on snax_alu / snax_xdma with an extension kernel, barriers and "
                "all-core ops; nested scf.for / scf.if, adjacent and separated) x 2 core counts from {2,3,4,5}; TLC runs the original once and the real "
                "dispatch-regions output once per core id (snax_cluster_core_idx = core) for all trip counts/branches; the core's log must equal the "
                "original log filtered by the statement's rule; non-trivial = >= 1 dispatchable op")
    CH = 300
    for lo in range(0, len(cases), CH):
        chunk = cases[lo:lo + CH]
        r, per = run_pair_batch(pid, "dispatch", chunk, tag=f"batch{lo}", coverage=(lo == 0))
        rep.add_tlc(r)
        for tid, vs in per.items():
            c = chunk[tid - 1]
            rep.evaluations += len(vs)
            if all(v[1].startswith("skipA") for v in vs):
                rep.skipped += 1
                rep.extra.setdefault("skip_reasons", {})
                rep.extra["skip_reasons"][vs[0][1]] = rep.extra["skip_reasons"].get(vs[0][1], 0) + 1
                continue
            rep.traces += 1
            if "memref.copy" in c["text"] or "linalg.generic" in c["text"] or "dart.operation" in c["text"]:
                rep.nontrivial.add(text_hash(c["text"]) + c["name"].split("|")[1])
            if len(rep.samples) < 2:
                rep.samples.append({"case": c["name"], "source": c["text"], "after": c["after"][:3000]})
            bad = [v for v in vs if v[1] != "ok" and not v[1].startswith("skipA")]
            if bad:
                oi, verdict, na, nb = sorted(bad)[0]
                o = oracle_at(c, oi)
                rep.violation(c["name"], f"clause {verdict} fails on core {o['core']} for inputs {[x for x in o['args'] if x < 900000]} ({na} original events, {nb} on this core; "
                              f"{len(bad)}/{len(vs)} oracles)", {"source": c["text"], "after": c["after"], "oracle": o, "clause": verdict})
    return rep.finish(known)
