"""Contracts beyond the listed properties, decided with the same machine (bin/check Exx).  They never affect a listed property:
their evidence goes to evidence/extra/, their verdict lines use the ids E01.. and they are not registered in MANIFEST.checks.

E01  accfg-insert-resets: an inserted reset never changes what a launch observes, and at function return every chain of
     configuration states has ended in a reset (contract `resets`).
E02  snax-to-func / snax-lower-mcycle: lowering of cluster barriers and cycle-counter reads is an event renaming: the lowered
     program performs the same side effects in the same order, every snax.cluster_sync_op becomes exactly one call of
     snax_cluster_hw_barrier on every path (contract `effects` after renaming).
"""
from __future__ import annotations

import os
import traceback

import repo  # noqa: F401
from checks_accfg import compile_stages
from common import VERIF, KnownFindings, MachineryError, Report, text_hash
from export_ir import funcs_of
from gen_accfg import generate
from pairs import default_argdom, image_of, oracle_at, run_pair_batch


class ExtraReport(Report):
    def finish(self, known):
        rc = super().finish(known)
        # move the evidence file out of the listed properties' directory
        src = os.path.join(VERIF, "evidence", f"{self.pid}.json")
        dst_dir = os.path.join(VERIF, "evidence", "extra")
        os.makedirs(dst_dir, exist_ok=True)
        if os.path.exists(src):
            os.replace(src, os.path.join(dst_dir, f"{self.pid}.json"))
        return rc


def run_resets(pid, tier, seed):
    rep = ExtraReport(pid, tier, seed)
    known = KnownFindings()
    n = 200 if tier == "quick" else 3000
    cases = []
    for k in range(n):
        # finding E01-a (known/E01/relaunch_in_region.mlir): a state that is launched again from inside a nested region is reset before
        # that region: re-launch regions are not generated here
        text, argdom, opq = generate(seed, k, relaunch=False, effects=False)
        st = compile_stages(text)
        a = st.get("dedup")
        if "input_error" in st or a is None or isinstance(a, Exception):
            rep.skipped += 1
            continue
        for flag in ("", "{reset-after-await=true}"):
            b = a.clone()
            try:
                repo.run_pipeline(b, "accfg-insert-resets" + flag)
                b.verify()
            except Exception as e:
                rep.evaluations += 1
                rep.violation(f"gen:{seed}:{k}{flag}", f"accfg-insert-resets raised {type(e).__name__}: {str(e)[:200]}",
                              {"source": str(a), "exception": traceback.format_exc(limit=6)})
                continue
            fa, fb = funcs_of(a), funcs_of(b)
            if "f" not in fa or "f" not in fb:
                continue
            ia, ib = image_of(fa["f"]), image_of(fb["f"])
            if not any(op["k"] in ("setup", "launch") for op in ia["ops"]):
                continue
            # finding E01-b (known/E01/one_branch_only.mlir): a state consumed on one branch only is not reset on the other path: the
            # all-paths clause is judged for programs without scf.if only
            cases.append({"name": f"gen:{seed}:{k}{flag}", "extra": {"allpaths": 0 if "scf.if" in str(fa["f"]) else 1}, "A": ia, "B": ib, "argdom": argdom, "opqdom": opq,
                          "text": str(fa["f"]), "after": str(fb["f"])})
    rep.rule = (f"{n} generated accfg programs (gen_accfg) after the real accfg-trace-states, accfg-dedup; through the real accfg-insert-resets with and "
                "without reset-after-await; TLC runs both programs for every trip count / branch outcome: contract resets")
    CH = 400
    for lo in range(0, len(cases), CH):
        chunk = cases[lo:lo + CH]
        r, per = run_pair_batch(pid, "resets", chunk, tag=f"batch{lo}", coverage=(lo == 0))
        rep.add_tlc(r)
        for tid, vs in per.items():
            c = chunk[tid - 1]
            rep.evaluations += len(vs)
            if all(v[1].startswith("skipA") for v in vs):
                rep.skipped += 1
                continue
            rep.traces += 1
            if "accfg.reset" in c["after"]:
                rep.nontrivial.add(text_hash(c["text"]))
            if len(rep.samples) < 2 and "accfg.reset" in c["after"]:
                rep.samples.append({"case": c["name"], "before": c["text"][:2500], "after": c["after"][:2500]})
            bad = [v for v in vs if v[1] != "ok" and not v[1].startswith("skipA")]
            if bad:
                oi, verdict, _, _ = sorted(bad)[0]
                rep.violation(c["name"], f"accfg-insert-resets: clause {verdict} fails for oracle {oracle_at(c, oi)} ({len(bad)}/{len(vs)} oracles)",
                              {"source": c["text"], "after": c["after"], "clause": verdict})
    return rep.finish(known)


def run_lowering(pid, tier, seed):
    import random

    from checks_barrier import Gen
    rep = ExtraReport(pid, tier, seed)
    known = KnownFindings()
    n = 200 if tier == "quick" else 3000
    cases = []
    for k in range(n):
        rng = random.Random(seed * 7368787 + k)
        g = Gen(rng)
        text, body = g.program()
        # sprinkle the other ops these passes lower
        extra = rng.choice(['    "snax.clear_l1"() : () -> ()\n', '    "snax.mcycle"() : () -> ()\n', "", ""])
        text = text.replace("    func.return", extra + "    func.return", 1)
        try:
            src = repo.parse(text)
            src.verify()
        except Exception as e:
            raise MachineryError(f"generator produced invalid input: {e}\n{text}")
        m = src.clone()
        try:
            repo.run_pipeline(m, "insert-sync-barrier,dispatch-regions{nb_cores=2}")
            a = m.clone()
            repo.run_pipeline(m, "snax-to-func,snax-lower-mcycle")
            m.verify()
        except Exception as e:
            rep.evaluations += 1
            rep.violation(f"gen:{seed}:{k}", f"lowering raised {type(e).__name__}: {str(e)[:200]}", {"source": text, "exception": traceback.format_exc(limit=6)})
            continue
        used = lambda x: any((x + t) in body for t in (" ", ",", ")", "\n"))
        argdom = [[900001], [900002], [900003], [0, 1, 2, 3] if used("%n") else [1], [0, 1] if used("%p") else [0]]
        ia, ib = image_of(funcs_of(a)["f"]), image_of(funcs_of(m)["f"])
        ia["allocsite"] = ib["allocsite"] = 1
        cases.append({"name": f"gen:{seed}:{k}", "A": ia, "B": ib, "argdom": argdom, "opqdom": [[0]], "coredom": [0, 1],
                      "text": str(funcs_of(a)["f"]), "after": str(funcs_of(m)["f"])})
    rep.rule = (f"{n} generated functions (C13's generator + snax.clear_l1 / snax.mcycle) after the real insert-sync-barrier, dispatch-regions; through "
                "the real snax-to-func, snax-lower-mcycle; TLC runs both programs per core and trip count: contract lowered (event renaming)")
    CH = 300
    for lo in range(0, len(cases), CH):
        chunk = cases[lo:lo + CH]
        r, per = run_pair_batch(pid, "lowered", chunk, tag=f"batch{lo}", coverage=(lo == 0))
        rep.add_tlc(r)
        for tid, vs in per.items():
            c = chunk[tid - 1]
            rep.evaluations += len(vs)
            if all(v[1].startswith("skipA") for v in vs):
                rep.skipped += 1
                continue
            rep.traces += 1
            if "snax_cluster_hw_barrier" in c["after"]:
                rep.nontrivial.add(text_hash(c["text"]))
            if len(rep.samples) < 2 and "snax_cluster_hw_barrier" in c["after"]:
                rep.samples.append({"case": c["name"], "before": c["text"][:2500], "after": c["after"][:2500]})
            bad = [v for v in vs if v[1] != "ok" and not v[1].startswith("skipA")]
            if bad:
                oi, verdict, _, _ = sorted(bad)[0]
                rep.violation(c["name"], f"snax-to-func,snax-lower-mcycle: clause {verdict} fails for oracle {oracle_at(c, oi)} ({len(bad)}/{len(vs)} oracles)",
                              {"source": c["text"], "after": c["after"], "clause": verdict})
    return rep.finish(known)


def run(pid: str, tier: str, seed: int, selftest=False, replay=None) -> int:
    if pid == "E01":
        return run_resets(pid, tier, seed)
    if pid == "E02":
        return run_lowering(pid, tier, seed)
    raise MachineryError(f"unknown extra check {pid}")
