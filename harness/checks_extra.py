"""Contracts beyond the listed properties, decided with the same machine (bin/check Exx).  They never affect a listed property:
their evidence goes to evidence/extra/, their verdict lines use the ids E01.. and they are not registered in MANIFEST.checks.

E01  accfg-insert-resets: an inserted reset never changes what a launch observes, and at function return every chain of
     configuration states has ended in a reset (contract `resets`).
E03  convert-linalg-to-dart: the streamed operands / patterns are the used operands / their indexing maps; same scalar body.
E02  snax-to-func / snax-lower-mcycle: lowering of cluster barriers and cycle-counter reads is an event renaming: the lowered
     program performs the same side effects in the same order, every snax.cluster_sync_op becomes exactly one call of
     snax_cluster_hw_barrier on every path (contract `effects` after renaming).
"""
from __future__ import annotations

import os
import traceback

import repo  # noqa: F401
from checks_accfg import compile_stages
from common import VERIF, KnownFindings, MachineryError, Report, text_hash
from export_ir import funcs_of
from gen_accfg import generate
from pairs import default_argdom, image_of, oracle_at, run_pair_batch


class ExtraReport(Report):
    def finish(self, known):
        rc = super().finish(known)
        # move the evidence file out of the listed properties' directory
        src = os.path.join(VERIF, "evidence", f"{self.pid}.json")
        dst_dir = os.path.join(VERIF, "evidence", "extra")
        os.makedirs(dst_dir, exist_ok=True)
        if os.path.exists(src):
            os.replace(src, os.path.join(dst_dir, f"{self.pid}.json"))
        return rc


def resets_cases(rep, seed, n, allpaths=True, prefix="gen"):
    """(program after the real trace + dedup, the same after the real accfg-insert-resets) for n generated programs"""
    cases = []
    for k in range(n):
        # finding E01-a (known/E01/relaunch_in_region.mlir): a state that is launched again from inside a nested region is reset before
        # that region: re-launch regions are not generated here
        text, argdom, opq = generate(seed, k, relaunch=False, effects=False)
        st = compile_stages(text)
        a = st.get("dedup")
        if "input_error" in st or a is None or isinstance(a, Exception):
            rep.skipped += 1
            continue
        for flag in ("", "{reset-after-await=true}"):
            b = a.clone()
            try:
                repo.run_pipeline(b, "accfg-insert-resets" + flag)
                b.verify()
            except Exception as e:
                rep.evaluations += 1
                rep.violation(f"{prefix}:{seed}:{k}{flag}", f"accfg-insert-resets raised {type(e).__name__}: {str(e)[:200]}",
                              {"source": str(a), "exception": traceback.format_exc(limit=6)})
                continue
            fa, fb = funcs_of(a), funcs_of(b)
            if "f" not in fa or "f" not in fb:
                continue
            ia, ib = image_of(fa["f"]), image_of(fb["f"])
            if not any(op["k"] in ("setup", "launch") for op in ia["ops"]):
                continue
            # finding E01-b (known/E01/one_branch_only.mlir): a state consumed on one branch only is not reset on the other path: the
            # all-paths clause is judged for programs without scf.if only
            cases.append({"name": f"{prefix}:{seed}:{k}{flag}", "extra": {"allpaths": 0 if ("scf.if" in str(fa["f"]) or not allpaths) else 1}, "A": ia, "B": ib,
                          "argdom": argdom, "opqdom": opq, "text": str(fa["f"]), "after": str(fb["f"])})
    return cases


def run_resets(pid, tier, seed):
    rep = ExtraReport(pid, tier, seed)
    known = KnownFindings()
    n = 200 if tier == "quick" else 3000
    cases = resets_cases(rep, seed, n)
    rep.rule = (f"{n} generated accfg programs (gen_accfg) after the real accfg-trace-states, accfg-dedup; through the real accfg-insert-resets with and "
                "without reset-after-await; TLC runs both programs for every trip count / branch outcome: contract resets")
    CH = 400
    for lo in range(0, len(cases), CH):
        chunk = cases[lo:lo + CH]
        r, per = run_pair_batch(pid, "resets", chunk, tag=f"batch{lo}", coverage=(lo == 0))
        rep.add_tlc(r)
        for tid, vs in per.items():
            c = chunk[tid - 1]
            rep.evaluations += len(vs)
            if all(v[1].startswith("skipA") for v in vs):
                rep.skipped += 1
                continue
            rep.traces += 1
            if "accfg.reset" in c["after"]:
                rep.nontrivial.add(text_hash(c["text"]))
            if len(rep.samples) < 2 and "accfg.reset" in c["after"]:
                rep.samples.append({"case": c["name"], "before": c["text"][:2500], "after": c["after"][:2500]})
            bad = [v for v in vs if v[1] != "ok" and not v[1].startswith("skipA")]
            if bad:
                oi, verdict, _, _ = sorted(bad)[0]
                rep.violation(c["name"], f"accfg-insert-resets: clause {verdict} fails for oracle {oracle_at(c, oi)} ({len(bad)}/{len(vs)} oracles)",
                              {"source": c["text"], "after": c["after"], "clause": verdict})
    return rep.finish(known)


def run_lowering(pid, tier, seed):
    import random

    from checks_barrier import Gen
    rep = ExtraReport(pid, tier, seed)
    known = KnownFindings()
    n = 200 if tier == "quick" else 3000
    cases = []
    for k in range(n):
        rng = random.Random(seed * 7368787 + k)
        g = Gen(rng)
        text, body = g.program()
        # sprinkle the other ops these passes lower
        extra = rng.choice(['    "snax.clear_l1"() : () -> ()\n', '    "snax.mcycle"() : () -> ()\n', "", ""])
        text = text.replace("    func.return", extra + "    func.return", 1)
        try:
            src = repo.parse(text)
            src.verify()
        except Exception as e:
            raise MachineryError(f"generator produced invalid input: {e}\n{text}")
        m = src.clone()
        try:
            repo.run_pipeline(m, "insert-sync-barrier,dispatch-regions{nb_cores=2}")
            a = m.clone()
            repo.run_pipeline(m, "snax-to-func,snax-lower-mcycle")
            m.verify()
        except Exception as e:
            rep.evaluations += 1
            rep.violation(f"gen:{seed}:{k}", f"lowering raised {type(e).__name__}: {str(e)[:200]}", {"source": text, "exception": traceback.format_exc(limit=6)})
            continue
        used = lambda x: any((x + t) in body for t in (" ", ",", ")", "\n"))
        argdom = [[900001], [900002], [900003], [0, 1, 2, 3] if used("%n") else [1], [0, 1] if used("%p") else [0]]
        ia, ib = image_of(funcs_of(a)["f"]), image_of(funcs_of(m)["f"])
        ia["allocsite"] = ib["allocsite"] = 1
        cases.append({"name": f"gen:{seed}:{k}", "A": ia, "B": ib, "argdom": argdom, "opqdom": [[0]], "coredom": [0, 1],
                      "text": str(funcs_of(a)["f"]), "after": str(funcs_of(m)["f"])})
    rep.rule = (f"{n} generated functions (C13's generator + snax.clear_l1 / snax.mcycle) after the real insert-sync-barrier, dispatch-regions; through "
                "the real snax-to-func, snax-lower-mcycle; TLC runs both programs per core and trip count: contract lowered (event renaming)")
    CH = 300
    for lo in range(0, len(cases), CH):
        chunk = cases[lo:lo + CH]
        r, per = run_pair_batch(pid, "lowered", chunk, tag=f"batch{lo}", coverage=(lo == 0))
        rep.add_tlc(r)
        for tid, vs in per.items():
            c = chunk[tid - 1]
            rep.evaluations += len(vs)
            if all(v[1].startswith("skipA") for v in vs):
                rep.skipped += 1
                continue
            rep.traces += 1
            if "snax_cluster_hw_barrier" in c["after"]:
                rep.nontrivial.add(text_hash(c["text"]))
            if len(rep.samples) < 2 and "snax_cluster_hw_barrier" in c["after"]:
                rep.samples.append({"case": c["name"], "before": c["text"][:2500], "after": c["after"][:2500]})
            bad = [v for v in vs if v[1] != "ok" and not v[1].startswith("skipA")]
            if bad:
                oi, verdict, _, _ = sorted(bad)[0]
                rep.violation(c["name"], f"snax-to-func,snax-lower-mcycle: clause {verdict} fails for oracle {oracle_at(c, oi)} ({len(bad)}/{len(vs)} oracles)",
                              {"source": c["text"], "after": c["after"], "clause": verdict})
    return rep.finish(known)


def run_streamify(pid, tier, seed):
    """E03 convert-linalg-to-dart: the dart.operation streams exactly the shaped operands the body uses (inputs) and all outputs, each with
    its own indexing map as pattern, on the accelerator named by the library call; the dart.generic computes the same scalar function."""
    import random

    from xdsl.dialects import linalg

    from checks_kernel import domains, finish_image, wmap
    from export_ir import export_body
    from objs import run_obj_batch
    from snaxc.dialects import dart
    rep = ExtraReport(pid, tier, seed)
    known = KnownFindings()
    rng = random.Random(seed)
    n = 150 if tier == "quick" else 2500
    MAPS2 = ["(d0, d1) -> (d0, d1)", "(d0, d1) -> (d1, d0)", "(d0, d1) -> (d0)", "(d0, d1) -> (d1)"]
    ocases, pcases = [], []
    for k in range(n):
        nin = rng.choice([1, 2, 2, 3])
        w = rng.choice([8, 32, 64])
        maps, tys = [], []
        for j in range(nin):
            mp = rng.choice(MAPS2)
            maps.append(mp)
            res = mp.split("->")[1].strip(" ()").split(", ")
            tys.append("tensor<" + "x".join("4" if r == "d0" else "6" for r in res) + f"xi{w}>")
        omap = rng.choice(MAPS2[:2])
        oty = "tensor<" + ("4x6" if omap == MAPS2[0] else "6x4") + f"xi{w}>"
        used = [rng.random() < 0.8 for _ in range(nin)]
        if not any(used):
            used[0] = True
        vals = [f"%x{j}" for j in range(nin) if used[j]]
        lines, cur = [], vals[0]
        for q in range(rng.choice([1, 2, 3])):
            nv = f"%v{q}"
            lines.append(f"      {nv} = arith.{rng.choice(['addi', 'muli', 'subi'])} {cur}, {rng.choice(vals)} : i{w}")
            cur = nv
        body_txt = "\n".join(lines) + f" {cur} "
        used = [any((f"%x{j}" + t) in body_txt for t in (" ", ",", "\n")) for j in range(nin)]     # what the body really reads
        args = ", ".join(f"%a{j} : {tys[j]}" for j in range(nin))
        bargs = ", ".join([f"%x{j} : i{w}" for j in range(nin)] + [f"%z : i{w}"])
        acc = rng.choice(["snax_alu", "snax_gemmx"])
        mtxt = ", ".join(f"affine_map<{m}>" for m in maps + [omap])
        text = f"""builtin.module {{
  func.func @f({args}) -> {oty} {{
    %e = tensor.empty() : {oty}
    %r = linalg.generic {{indexing_maps = [{mtxt}], iterator_types = ["parallel", "parallel"], library_call = "{acc}_stream"}} ins({', '.join(f'%a{j}' for j in range(nin))} : {', '.join(tys)}) outs(%e : {oty}) {{
    ^bb0({bargs}):
{chr(10).join(lines)}
      linalg.yield {cur} : i{w}
    }} -> {oty}
    func.return %r : {oty}
  }}
}}
"""
        try:
            src = repo.parse(text)
            src.verify()
        except Exception as e:
            raise MachineryError(f"generator produced invalid input: {e}\n{text}")
        m = src.clone()
        try:
            repo.run_pipeline(m, "convert-linalg-to-dart")
            m.verify()
        except NotImplementedError:
            rep.refused += 1
            continue
        except Exception as e:
            rep.evaluations += 1
            rep.violation(f"gen:{seed}:{k}", f"convert-linalg-to-dart raised {type(e).__name__}: {str(e)[:200]}", {"source": text})
            continue
        ops = [o for o in m.walk() if isinstance(o, dart.OperationOp)]
        gens = [o for o in m.walk() if isinstance(o, dart.GenericOp)]
        if len(ops) != 1 or len(gens) != 1 or any(isinstance(o, linalg.GenericOp) for o in m.walk()):
            rep.evaluations += 1
            rep.violation(f"gen:{seed}:{k}", "the linalg.generic was not replaced by exactly one dart.operation with one dart.generic", {"source": text, "after": str(m)[:3000]})
            continue
        op = ops[0]
        fn = [o for o in m.walk() if o.name == "func.func"][0]
        argidx = {a: j for j, a in enumerate(fn.body.block.args)}
        want = [[j, maps[j]] for j in range(nin) if used[j]] + [[-1, omap]]
        got = [[argidx.get(v, -1), str(p.data).replace("affine_map<", "").rstrip(">")] for v, p in zip(list(op.inputs) + list(op.outputs), op.patterns.data)]
        ocases.append({"kind": "eq", "clause": "StreamsUsedOperandsWithTheirMaps", "name": f"gen:{seed}:{k}", "x": got, "y": want, "text": text})
        ocases.append({"kind": "eq", "clause": "AcceleratorFromLibraryCall", "name": f"gen:{seed}:{k}:acc", "x": op.accelerator.data if op.accelerator else "", "y": acc, "text": text})
        ga = [o for o in src.walk() if isinstance(o, linalg.GenericOp)][0]
        ia, ib = finish_image(export_body(ga.body.block, wmap)), finish_image(export_body(gens[0].body.block, wmap))
        pcases.append({"name": f"gen:{seed}:{k}", "A": ia, "B": ib, "argdom": domains([w] * (nin + 1), 125), "opqdom": [[0]], "text": text, "after": str(m)[:3000]})
    rep.rule = (f"{n} generated linalg.generic ops on tensors (1-3 inputs, some unused by the body, identity / transposed / broadcast maps, bodies of 1-3 "
                "integer ops) through the real convert-linalg-to-dart; TLC compares the streamed operands and patterns with the used operands and "
                "their indexing maps and runs both bodies on the machine (contract scalar)")
    if ocases:
        r, verdicts = run_obj_batch(pid, ocases, tag="streams")
        rep.add_tlc(r)
        for tid, v in verdicts.items():
            c = ocases[tid - 1]
            rep.evaluations += 1
            rep.traces += 1
            rep.nontrivial.add(text_hash(c["text"]))
            if v != "ok":
                rep.violation(c["name"], f"clause {v} fails: got {c['x']} expected {c['y']}", {"source": c["text"], "clause": v})
    for lo in range(0, len(pcases), 400):
        chunk = pcases[lo:lo + 400]
        r, per = run_pair_batch(pid, "scalar", chunk, tag=f"bodies{lo}")
        rep.add_tlc(r)
        for tid, vs in per.items():
            c = chunk[tid - 1]
            rep.evaluations += len(vs)
            if len(rep.samples) < 2:
                rep.samples.append({"case": c["name"], "source": c["text"], "after": c["after"]})
            bad = [v for v in vs if v[1] != "ok" and not v[1].startswith("skipA")]
            if bad:
                rep.violation(c["name"] + "|body", f"clause {bad[0][1]} fails for inputs {oracle_at(c, bad[0][0])['args']}", {"source": c["text"], "after": c["after"]})
    return rep.finish(known)


def run(pid: str, tier: str, seed: int, selftest=False, replay=None) -> int:
    if pid == "E03":
        return run_streamify(pid, tier, seed)
    if pid == "E01":
        return run_resets(pid, tier, seed)
    if pid == "E02":
        return run_lowering(pid, tier, seed)
    raise MachineryError(f"unknown extra check {pid}")
