"""Contracts beyond the listed properties, decided with the same machine (bin/check Exx).  They never affect a listed property:
their evidence goes to evidence/extra/, their verdict lines use the ids E01.. and they are not registered in MANIFEST.checks.

E01  accfg-insert-resets: an inserted reset never changes what a launch observes, and at function return every chain of
     configuration states has ended in a reset (contract `resets`).
E03  convert-linalg-to-dart: the streamed operands / patterns are the used operands / their indexing maps; same scalar body.
E04  dart-fuse-operations: the function returns the same tensors before and after fusion (tensor-level meaning in spec/Dart.tla).
E05  phs-remove-one-option-switches: the pruned PE has exactly the switches the software configures and computes every merged kernel.
E02  snax-to-func / snax-lower-mcycle: lowering of cluster barriers and cycle-counter reads is an event renaming: the lowered
     program performs the same side effects in the same order, every snax.cluster_sync_op becomes exactly one call of
     snax_cluster_hw_barrier on every path (contract `effects` after renaming).
"""
from __future__ import annotations

import os
import traceback

import repo  # noqa: F401
from checks_accfg import compile_stages
from common import VERIF, KnownFindings, MachineryError, Report, text_hash
from export_ir import funcs_of
from gen_accfg import generate
from pairs import default_argdom, image_of, oracle_at, run_pair_batch


class ExtraReport(Report):
    def finish(self, known):
        rc = super().finish(known)
        # move the evidence file out of the listed properties' directory
        src = os.path.join(VERIF, "evidence", f"{self.pid}.json")
        dst_dir = os.path.join(VERIF, "evidence", "extra")
        os.makedirs(dst_dir, exist_ok=True)
        if os.path.exists(src):
            os.replace(src, os.path.join(dst_dir, f"{self.pid}.json"))
        return rc


def resets_cases(rep, seed, n, allpaths=True, prefix="gen"):
    """(program after the real trace + dedup, the same after the real accfg-insert-resets) for n generated programs"""
    cases = []
    for k in range(n):
        # finding E01-a (known/E01/relaunch_in_region.mlir): a state that is launched again from inside a nested region is reset before
        # that region: re-launch regions are not generated here
        text, argdom, opq = generate(seed, k, relaunch=False, effects=False)
        st = compile_stages(text)
        a = st.get("dedup")
        if "input_error" in st or a is None or isinstance(a, Exception):
            rep.skipped += 1
            continue
        for flag in ("", "{reset-after-await=true}"):
            b = a.clone()
            try:
                repo.run_pipeline(b, "accfg-insert-resets" + flag)
                b.verify()
            except Exception as e:
                rep.evaluations += 1
                rep.violation(f"{prefix}:{seed}:{k}{flag}", f"accfg-insert-resets raised {type(e).__name__}: {str(e)[:200]}",
                              {"source": str(a), "exception": traceback.format_exc(limit=6)})
                continue
            fa, fb = funcs_of(a), funcs_of(b)
            if "f" not in fa or "f" not in fb:
                continue
            ia, ib = image_of(fa["f"]), image_of(fb["f"])
            if not any(op["k"] in ("setup", "launch") for op in ia["ops"]):
                continue
            # finding E01-b (known/E01/one_branch_only.mlir): a state consumed on one branch only is not reset on the other path: the
            # all-paths clause is judged for programs without scf.if only
            cases.append({"name": f"{prefix}:{seed}:{k}{flag}", "extra": {"allpaths": 0 if ("scf.if" in str(fa["f"]) or not allpaths) else 1}, "A": ia, "B": ib,
                          "argdom": argdom, "opqdom": opq, "text": str(fa["f"]), "after": str(fb["f"])})
    return cases


def run_resets(pid, tier, seed):
    rep = ExtraReport(pid, tier, seed)
    known = KnownFindings()
    n = 200 if tier == "quick" else 3000
    cases = resets_cases(rep, seed, n)
    rep.rule = (f"{n} generated accfg programs (gen_accfg) after the real accfg-trace-states, accfg-dedup; through the real accfg-insert-resets with and "
                "without reset-after-await; TLC runs both programs for every trip count / branch outcome: contract resets")
    CH = 400
    for lo in range(0, len(cases), CH):
        chunk = cases[lo:lo + CH]
        r, per = run_pair_batch(pid, "resets", chunk, tag=f"batch{lo}", coverage=(lo == 0))
        rep.add_tlc(r)
        for tid, vs in per.items():
            c = chunk[tid - 1]
            rep.evaluations += len(vs)
            if all(v[1].startswith("skipA") for v in vs):
                rep.skipped += 1
                continue
            rep.traces += 1
            if "accfg.reset" in c["after"]:
                rep.nontrivial.add(text_hash(c["text"]))
            if len(rep.samples) < 2 and "accfg.reset" in c["after"]:
                rep.samples.append({"case": c["name"], "before": c["text"][:2500], "after": c["after"][:2500]})
            bad = [v for v in vs if v[1] != "ok" and not v[1].startswith("skipA")]
            if bad:
                oi, verdict, _, _ = sorted(bad)[0]
                rep.violation(c["name"], f"accfg-insert-resets: clause {verdict} fails for oracle {oracle_at(c, oi)} ({len(bad)}/{len(vs)} oracles)",
                              {"source": c["text"], "after": c["after"], "clause": verdict})
    return rep.finish(known)


def run_lowering(pid, tier, seed):
    import random

    from checks_barrier import Gen
    rep = ExtraReport(pid, tier, seed)
    known = KnownFindings()
    n = 200 if tier == "quick" else 3000
    cases = []
    for k in range(n):
        rng = random.Random(seed * 7368787 + k)
        g = Gen(rng)
        text, body = g.program()
        # sprinkle the other ops these passes lower
        extra = rng.choice(['    "snax.clear_l1"() : () -> ()\n', '    "snax.mcycle"() : () -> ()\n', "", ""])
        text = text.replace("    func.return", extra + "    func.return", 1)
        try:
            src = repo.parse(text)
            src.verify()
        except Exception as e:
            raise MachineryError(f"generator produced invalid input: {e}\n{text}")
        m = src.clone()
        try:
            repo.run_pipeline(m, "insert-sync-barrier,dispatch-regions{nb_cores=2}")
            a = m.clone()
            repo.run_pipeline(m, "snax-to-func,snax-lower-mcycle")
            m.verify()
        except Exception as e:
            rep.evaluations += 1
            rep.violation(f"gen:{seed}:{k}", f"lowering raised {type(e).__name__}: {str(e)[:200]}", {"source": text, "exception": traceback.format_exc(limit=6)})
            continue
        used = lambda x: any((x + t) in body for t in (" ", ",", ")", "\n"))
        argdom = [[900001], [900002], [900003], [0, 1, 2, 3] if used("%n") else [1], [0, 1] if used("%p") else [0]]
        ia, ib = image_of(funcs_of(a)["f"]), image_of(funcs_of(m)["f"])
        ia["allocsite"] = ib["allocsite"] = 1
        cases.append({"name": f"gen:{seed}:{k}", "A": ia, "B": ib, "argdom": argdom, "opqdom": [[0]], "coredom": [0, 1],
                      "text": str(funcs_of(a)["f"]), "after": str(funcs_of(m)["f"])})
    rep.rule = (f"{n} generated functions (C13's generator + snax.clear_l1 / snax.mcycle) after the real insert-sync-barrier, dispatch-regions; through "
                "the real snax-to-func, snax-lower-mcycle; TLC runs both programs per core and trip count: contract lowered (event renaming)")
    CH = 300
    for lo in range(0, len(cases), CH):
        chunk = cases[lo:lo + CH]
        r, per = run_pair_batch(pid, "lowered", chunk, tag=f"batch{lo}", coverage=(lo == 0))
        rep.add_tlc(r)
        for tid, vs in per.items():
            c = chunk[tid - 1]
            rep.evaluations += len(vs)
            if all(v[1].startswith("skipA") for v in vs):
                rep.skipped += 1
                continue
            rep.traces += 1
            if "snax_cluster_hw_barrier" in c["after"]:
                rep.nontrivial.add(text_hash(c["text"]))
            if len(rep.samples) < 2 and "snax_cluster_hw_barrier" in c["after"]:
                rep.samples.append({"case": c["name"], "before": c["text"][:2500], "after": c["after"][:2500]})
            bad = [v for v in vs if v[1] != "ok" and not v[1].startswith("skipA")]
            if bad:
                oi, verdict, _, _ = sorted(bad)[0]
                rep.violation(c["name"], f"snax-to-func,snax-lower-mcycle: clause {verdict} fails for oracle {oracle_at(c, oi)} ({len(bad)}/{len(vs)} oracles)",
                              {"source": c["text"], "after": c["after"], "clause": verdict})
    return rep.finish(known)


def run_streamify(pid, tier, seed):
    """E03 convert-linalg-to-dart: the dart.operation streams exactly the shaped operands the body uses (inputs) and all outputs, each with
    its own indexing map as pattern, on the accelerator named by the library call; the dart.generic computes the same scalar function."""
    import random

    from xdsl.dialects import linalg

    from checks_kernel import domains, finish_image, wmap
    from export_ir import export_body
    from objs import run_obj_batch
    from snaxc.dialects import dart
    rep = ExtraReport(pid, tier, seed)
    known = KnownFindings()
    rng = random.Random(seed)
    n = 150 if tier == "quick" else 2500
    MAPS2 = ["(d0, d1) -> (d0, d1)", "(d0, d1) -> (d1, d0)", "(d0, d1) -> (d0)", "(d0, d1) -> (d1)"]
    ocases, pcases = [], []
    for k in range(n):
        nin = rng.choice([1, 2, 2, 3])
        w = rng.choice([8, 32, 64])
        maps, tys = [], []
        for j in range(nin):
            mp = rng.choice(MAPS2)
            maps.append(mp)
            res = mp.split("->")[1].strip(" ()").split(", ")
            tys.append("tensor<" + "x".join("4" if r == "d0" else "6" for r in res) + f"xi{w}>")
        omap = rng.choice(MAPS2[:2])
        oty = "tensor<" + ("4x6" if omap == MAPS2[0] else "6x4") + f"xi{w}>"
        used = [rng.random() < 0.8 for _ in range(nin)]
        if not any(used):
            used[0] = True
        vals = [f"%x{j}" for j in range(nin) if used[j]]
        lines, cur = [], vals[0]
        for q in range(rng.choice([1, 2, 3])):
            nv = f"%v{q}"
            lines.append(f"      {nv} = arith.{rng.choice(['addi', 'muli', 'subi'])} {cur}, {rng.choice(vals)} : i{w}")
            cur = nv
        body_txt = "\n".join(lines) + f" {cur} "
        used = [any((f"%x{j}" + t) in body_txt for t in (" ", ",", "\n")) for j in range(nin)]     # what the body really reads
        args = ", ".join(f"%a{j} : {tys[j]}" for j in range(nin))
        bargs = ", ".join([f"%x{j} : i{w}" for j in range(nin)] + [f"%z : i{w}"])
        acc = rng.choice(["snax_alu", "snax_gemmx"])
        mtxt = ", ".join(f"affine_map<{m}>" for m in maps + [omap])
        text = f"""builtin.module {{
  func.func @f({args}) -> {oty} {{
    %e = tensor.empty() : {oty}
    %r = linalg.generic {{indexing_maps = [{mtxt}], iterator_types = ["parallel", "parallel"], library_call = "{acc}_stream"}} ins({', '.join(f'%a{j}' for j in range(nin))} : {', '.join(tys)}) outs(%e : {oty}) {{
    ^bb0({bargs}):
{chr(10).join(lines)}
      linalg.yield {cur} : i{w}
    }} -> {oty}
    func.return %r : {oty}
  }}
}}
"""
        try:
            src = repo.parse(text)
            src.verify()
        except Exception as e:
            raise MachineryError(f"generator produced invalid input: {e}\n{text}")
        m = src.clone()
        try:
            repo.run_pipeline(m, "convert-linalg-to-dart")
            m.verify()
        except NotImplementedError:
            rep.refused += 1
            continue
        except Exception as e:
            rep.evaluations += 1
            rep.violation(f"gen:{seed}:{k}", f"convert-linalg-to-dart raised {type(e).__name__}: {str(e)[:200]}", {"source": text})
            continue
        ops = [o for o in m.walk() if isinstance(o, dart.OperationOp)]
        gens = [o for o in m.walk() if isinstance(o, dart.GenericOp)]
        if len(ops) != 1 or len(gens) != 1 or any(isinstance(o, linalg.GenericOp) for o in m.walk()):
            rep.evaluations += 1
            rep.violation(f"gen:{seed}:{k}", "the linalg.generic was not replaced by exactly one dart.operation with one dart.generic", {"source": text, "after": str(m)[:3000]})
            continue
        op = ops[0]
        fn = [o for o in m.walk() if o.name == "func.func"][0]
        argidx = {a: j for j, a in enumerate(fn.body.block.args)}
        want = [[j, maps[j]] for j in range(nin) if used[j]] + [[-1, omap]]
        got = [[argidx.get(v, -1), str(p.data).replace("affine_map<", "").rstrip(">")] for v, p in zip(list(op.inputs) + list(op.outputs), op.patterns.data)]
        ocases.append({"kind": "eq", "clause": "StreamsUsedOperandsWithTheirMaps", "name": f"gen:{seed}:{k}", "x": got, "y": want, "text": text})
        ocases.append({"kind": "eq", "clause": "AcceleratorFromLibraryCall", "name": f"gen:{seed}:{k}:acc", "x": op.accelerator.data if op.accelerator else "", "y": acc, "text": text})
        ga = [o for o in src.walk() if isinstance(o, linalg.GenericOp)][0]
        ia, ib = finish_image(export_body(ga.body.block, wmap)), finish_image(export_body(gens[0].body.block, wmap))
        pcases.append({"name": f"gen:{seed}:{k}", "A": ia, "B": ib, "argdom": domains([w] * (nin + 1), 125), "opqdom": [[0]], "text": text, "after": str(m)[:3000]})
    rep.rule = (f"{n} generated linalg.generic ops on tensors (1-3 inputs, some unused by the body, identity / transposed / broadcast maps, bodies of 1-3 "
                "integer ops) through the real convert-linalg-to-dart; TLC compares the streamed operands and patterns with the used operands and "
                "their indexing maps and runs both bodies on the machine (contract scalar)")
    if ocases:
        r, verdicts = run_obj_batch(pid, ocases, tag="streams")
        rep.add_tlc(r)
        for tid, v in verdicts.items():
            c = ocases[tid - 1]
            rep.evaluations += 1
            rep.traces += 1
            rep.nontrivial.add(text_hash(c["text"]))
            if v != "ok":
                rep.violation(c["name"], f"clause {v} fails: got {c['x']} expected {c['y']}", {"source": c["text"], "clause": v})
    for lo in range(0, len(pcases), 400):
        chunk = pcases[lo:lo + 400]
        r, per = run_pair_batch(pid, "scalar", chunk, tag=f"bodies{lo}")
        rep.add_tlc(r)
        for tid, vs in per.items():
            c = chunk[tid - 1]
            rep.evaluations += len(vs)
            if len(rep.samples) < 2:
                rep.samples.append({"case": c["name"], "source": c["text"], "after": c["after"]})
            bad = [v for v in vs if v[1] != "ok" and not v[1].startswith("skipA")]
            if bad:
                rep.violation(c["name"] + "|body", f"clause {bad[0][1]} fails for inputs {oracle_at(c, bad[0][0])['args']}", {"source": c["text"], "after": c["after"]})
    return rep.finish(known)


# ---------------------------------------------------------------------------------------------------------------------------
# E04 dart-fuse-operations against the tensor-level meaning of dart.operation (spec/Dart.tla)

def export_dart_prog(module):
    """func.func of dart.operation ops on tensors -> program record of Dart.tla (syntactic: shapes, operand ids, integer affine
    maps of the patterns, the generics' kernel op and wiring)."""
    from xdsl.dialects import arith, func, tensor
    from xdsl.dialects.builtin import IntegerAttr, TensorType
    from xdsl.ir import BlockArgument
    from xdsl.ir.affine import AffineBinaryOpExpr, AffineBinaryOpKind, AffineConstantExpr, AffineDimExpr

    from snaxc.dialects import dart
    fn = [o for o in module.walk() if isinstance(o, func.FuncOp)][0]
    ids, shapes, consts = {}, [], {}

    def new_tensor(v):
        assert isinstance(v.type, TensorType), v.type
        shapes.append(list(v.type.get_shape()))
        ids[v] = len(shapes)

    def row(expr, nd):
        r, b = [0] * nd, 0
        todo = [expr]
        while todo:
            e = todo.pop()
            if isinstance(e, AffineDimExpr):
                r[e.position] += 1
            elif isinstance(e, AffineConstantExpr):
                b += e.value
            elif isinstance(e, AffineBinaryOpExpr) and e.kind == AffineBinaryOpKind.Add:
                todo += [e.lhs, e.rhs]
            elif isinstance(e, AffineBinaryOpExpr) and e.kind == AffineBinaryOpKind.Mul and isinstance(e.lhs, AffineDimExpr) and isinstance(e.rhs, AffineConstantExpr):
                r[e.lhs.position] += e.rhs.value
            else:
                raise MachineryError(f"pattern expression {e} is outside the exported class")
        return r, b

    for a in fn.body.block.args:
        new_tensor(a)
    nargs = len(shapes)
    ops, ret = [], []
    for o in fn.body.block.ops:
        if isinstance(o, tensor.EmptyOp):
            new_tensor(o.results[0])
        elif isinstance(o, arith.ConstantOp):
            assert isinstance(o.value, IntegerAttr)
            consts[o.results[0]] = o.value.value.data
        elif isinstance(o, dart.OperationOp):
            assert len(o.results) == 1
            opnds = list(o.inputs) + list(o.outputs)
            pats = []
            for pa in o.patterns.data:
                m = pa.data
                rows = [row(e, m.num_dims) for e in m.results]
                pats.append({"A": [r for r, _ in rows], "b": [b for _, b in rows]})
            blk = o.body.block
            gens, gid, y = [], {}, None
            for g in blk.ops:
                if isinstance(g, dart.GenericOp):
                    refs = []
                    for i in g.inputs:
                        if isinstance(i, BlockArgument) and i.block is blk:
                            refs.append({"t": "s", "v": i.index + 1})
                        elif i in gid:
                            refs.append({"t": "g", "v": gid[i]})
                        elif i in consts:
                            refs.append({"t": "c", "v": consts[i]})
                        else:
                            raise MachineryError(f"generic input {i} is neither a stream, a generic result nor a constant")
                    body = list(g.body.block.ops)
                    assert len(body) == 2 and body[1].name == "dart.yield" and list(body[1].operands) == list(body[0].results), str(g)
                    b = []
                    for x in body[0].operands:
                        assert isinstance(x, BlockArgument) and x.block is g.body.block and x.index < len(g.inputs), str(g)
                        b.append(x.index + 1)
                    gens.append({"k": body[0].name, "a": refs, "b": b})
                    gid[g.results[0]] = len(gens)
                elif isinstance(g, dart.YieldOp):
                    v = g.operands[0]
                    y = {"t": "g", "v": gid[v]} if v in gid else {"t": "s", "v": v.index + 1}
                else:
                    raise MachineryError(f"unexpected op {g.name} in a dart.operation")
            new_tensor(o.results[0])
            ops.append({"opnds": [ids[v] for v in opnds], "pats": pats, "nd": o.patterns.data[0].data.num_dims, "gens": gens, "y": y, "res": ids[o.results[0]]})
        elif isinstance(o, func.ReturnOp):
            ret = [ids[v] for v in o.operands]
        else:
            raise MachineryError(f"unexpected op {o.name} in a dart function")
    return {"shapes": shapes, "nargs": nargs, "ops": ops, "ret": ret}


def gen_dart_chain(rng, carve=True):
    """text of a function with 2-3 chained dart.operation ops; carve: stay outside the two recorded findings"""
    D = [2, 3, 2]      # lengths of d0, d1, d2
    args, lines, info = [], [], []
    w = 32

    def new_arg(shape):
        args.append(f"%a{len(args)} : tensor<{'x'.join(str(x) for x in shape)}xi{w}>")
        return f"%a{len(args) - 1}", f"tensor<{'x'.join(str(x) for x in shape)}xi{w}>"

    def operand(kind):      # a fresh argument read through pattern kind over (d0, d1)
        if kind == "id":
            return new_arg([D[0], D[1]]) + ("(d0, d1) -> (d0, d1)",)
        if kind == "tr":
            return new_arg([D[1], D[0]]) + ("(d0, d1) -> (d1, d0)",)
        if kind == "b0":
            return new_arg([D[0]]) + ("(d0, d1) -> (d0)",)
        return new_arg([D[1]]) + ("(d0, d1) -> (d1)",)

    oty = f"tensor<{D[0]}x{D[1]}xi{w}>"
    acc = rng.choice(["snax_gemmx", "snax_alu"])
    nops = rng.choice([2, 2, 3])
    prev = None
    tags = []
    for k in range(nops):
        e = f"%e{k}"
        lines.append(f"  {e} = tensor.empty() : {oty}")
        if k == 0 and rng.random() < 0.45:
            # matmul-like producer with a reduction
            (a, ta), (b, tb) = new_arg([D[0], D[2]]), new_arg([D[2], D[1]])
            zp = rng.choice([0, 0, 1])
            lines.append(f"  %zp = arith.constant {zp} : i32")
            lines.append(f"""  %r{k} = "dart.operation"({a}, {b}, {e}) <{{patterns = [affine_map<(d0, d1, d2) -> (d0, d2)>, affine_map<(d0, d1, d2) -> (d2, d1)>, affine_map<(d0, d1, d2) -> (d0, d1)>], accelerator = "{acc}", operandSegmentSizes = array<i32: 2, 1>}}> ({{
  ^bb0(%s0 : !dart.stream<i32>, %s1 : !dart.stream<i32>, %s2 : !dart.stream<i32>):
    %g = "dart.generic"(%s0, %s1, %zp, %zp) <{{library_call = "{acc}"}}> ({{
    ^bb1(%x0 : i32, %x1 : i32, %x2 : i32, %x3 : i32, %xo : i32):
      %v = kernel.qmac %x0, %x1 zp_lhs : %x2 zp_rhs : %x3 : i32, i32, i32, i32 -> i32
      dart.yield %v : i32
    }}) : (!dart.stream<i32>, !dart.stream<i32>, i32, i32) -> !dart.stream<i32>
    dart.yield %g : !dart.stream<i32>
  }}) : ({ta}, {tb}, {oty}) -> {oty}""")
            tags.append("mm")
        else:
            kern = rng.choice(["add", "add", "mul"])
            ins = []
            nin = rng.choice([1, 2, 2])
            pos = rng.randrange(nin) if prev else -1
            if carve and prev and pos != 0:
                pos = 0                       # finding E04/consumer-operand-position: the fused value is only wired right as input 0
            for j in range(nin):
                if j == pos:
                    ins.append((prev, oty, "(d0, d1) -> (d0, d1)"))
                else:
                    kinds = ["id", "id", "b0", "b1"] if prev else ["id", "id", "tr", "b0", "b1"]
                    ins.append(operand(rng.choice(kinds)))
            if nin == 1:
                ins.append(ins[0] if rng.random() < 0.5 and ins[0][0] != prev else operand("id"))
            omap = "(d0, d1) -> (d0, d1)"
            swap = rng.random() < 0.3
            x0, x1 = ("%x1", "%x0") if swap else ("%x0", "%x1")
            lines.append(f"""  %r{k} = "dart.operation"({ins[0][0]}, {ins[1][0]}, {e}) <{{patterns = [affine_map<{ins[0][2]}>, affine_map<{ins[1][2]}>, affine_map<{omap}>], accelerator = "{acc}", operandSegmentSizes = array<i32: 2, 1>}}> ({{
  ^bb0(%s0 : !dart.stream<i32>, %s1 : !dart.stream<i32>, %s2 : !dart.stream<i32>):
    %g = "dart.generic"(%s0, %s1) <{{library_call = "{acc}"}}> ({{
    ^bb1(%x0 : i32, %x1 : i32, %xo : i32):
      %v = kernel.{kern} {x0}, {x1} : i32, i32 -> i32
      dart.yield %v : i32
    }}) : (!dart.stream<i32>, !dart.stream<i32>) -> !dart.stream<i32>
    dart.yield %g : !dart.stream<i32>
  }}) : ({ins[0][1]}, {ins[1][1]}, {oty}) -> {oty}""")
            tags.append(kern + ("@%d" % pos if prev else ""))
        prev = f"%r{k}"
    rets = [prev]
    if rng.random() < 0.2 and nops >= 2:
        rets.append("%r0")         # a second use of the first result: that producer must stay
    text = ("builtin.module {\nfunc.func public @f(" + ", ".join(args) + ") -> (" + ", ".join([oty] * len(rets)) + ") {\n" + "\n".join(lines)
            + f"\n  func.return {', '.join(rets)} : {', '.join([oty] * len(rets))}\n}}\n}}\n")
    return text, "+".join(tags)


def run_fuse(pid, tier, seed):
    """E04 dart-fuse-operations: the function returns the same tensors before and after fusion, for the tensor-level meaning of
    dart.operation in spec/Dart.tla."""
    import glob
    import json
    import random

    from objs import run_obj_batch
    from snaxc.dialects import dart
    rep = ExtraReport(pid, tier, seed)
    known = KnownFindings()
    rng = random.Random(seed)
    n = 300 if tier == "quick" else 4000
    cases = []
    fused = 0

    def add(name, text, tag, is_known=None):
        nonlocal fused
        try:
            src = repo.parse(text)
            src.verify()
        except Exception as e:
            raise MachineryError(f"generator produced invalid input: {e}\n{text}")
        m = src.clone()
        try:
            repo.run_pipeline(m, "dart-fuse-operations")
            m.verify()
        except (NotImplementedError, RuntimeError):
            rep.refused += 1
            return
        except Exception as e:
            rep.evaluations += 1
            rep.violation(name, f"dart-fuse-operations raised {type(e).__name__}: {str(e)[:200]}", {"source": text, "exception": traceback.format_exc(limit=6)})
            return
        A, B = export_dart_prog(src), export_dart_prog(m)
        fused += len(B["ops"]) < len(A["ops"])
        vrng = random.Random(text_hash(text))
        vals = [[[vrng.randint(-4, 9) for _ in range(_prod(A["shapes"][i]))] for i in range(A["nargs"])] for _ in range(2)]
        cases.append({"kind": "dartpair", "name": name, "A": A, "B": B, "vals": vals, "text": text, "after": str(m)[:4000], "tag": tag, "known": is_known or ""})

    for f in sorted(glob.glob(os.path.join(VERIF, "known", "E04", "*.mlir"))):
        add("known:" + os.path.basename(f), open(f).read(), "witness", is_known=os.path.basename(f))
    for k in range(n):
        text, tag = gen_dart_chain(rng)
        add(f"gen:{seed}:{k}", text, tag)
    rep.rule = (f"{n} generated functions of 2-3 chained dart.operation ops on tensors (matmul-like producer with a reduction or element-wise add/mul "
                "with identity / transposed / broadcast operands, swapped kernel operands, results with a second use) through the real "
                "dart-fuse-operations; TLC evaluates both functions with spec/Dart.tla on two argument valuations and compares the returned tensors "
                f"(ObjCheck kind dartpair); {fused} cases were really fused")
    rep.extra["really_fused"] = fused
    if fused == 0 and n > 50:
        raise MachineryError("no generated function was fused: the check would be vacuous")
    for lo in range(0, len(cases), 500):
        chunk = cases[lo:lo + 500]
        r, verdicts = run_obj_batch(pid, chunk, tag=f"fuse{lo}")
        rep.add_tlc(r)
        for tid, v in verdicts.items():
            c = chunk[tid - 1]
            rep.evaluations += 1
            rep.traces += 1
            rep.nontrivial.add(text_hash(c["text"]))
            if len(rep.samples) < 2 and len(c["B"]["ops"]) < len(c["A"]["ops"]):
                rep.samples.append({"case": c["name"], "source": c["text"], "after": c["after"]})
            if v == "SourceWellFormed":
                raise MachineryError(f"generated program is not well formed for Dart.tla: {c['text']}")
            if v != "ok":
                if c["known"]:
                    print(f"KNOWN-FINDING: property={pid} {c['known']}: clause {v} (witness known/E04/{c['known']})")
                    rep.known_hits.append(c["known"])
                    continue
                rep.violation(c["name"], f"clause {v} fails ({c['tag']})", {"source": c["text"], "after": c["after"], "clause": v})
            elif c["known"]:
                rep.violation(c["name"], "the recorded witness no longer fails: remove it from known/E04 and from the generator's carve-outs", {"source": c["text"]})
    return rep.finish(known)


def _prod(xs):
    r = 1
    for x in xs:
        r *= x
    return r


# ---------------------------------------------------------------------------------------------------------------------------
# E05 phs-remove-one-option-switches: the hardware view of a merged PE against what the software configures

def run_pehw(pid, tier, seed):
    """E05: after the real phs-remove-one-option-switches the PE has exactly the switches the software side configures (the decoded
    values of C20, one per switch that really selects something), in the same order, and under those values it computes every merged
    kernel (PE.tla EvalPE on the pruned graph)."""
    import random

    from xdsl.dialects import linalg
    from xdsl.dialects.builtin import ModuleOp
    from xdsl.pattern_rewriter import PatternRewriter

    from checks_pe import export_pe, kernel_record, kernel_text, make_library, tlc_histories
    from objs import run_obj_batch
    from snaxc.dialects import phs
    from snaxc.phs.combine import append_to_abstract_graph
    from snaxc.phs.decode import decode_abstract_graph
    from snaxc.phs.encode import convert_generic_body_to_phs
    from snaxc.transforms.phs.remove_one_option_switches import PhsRemoveOneOptionSwitchesPass
    rep = ExtraReport(pid, tier, seed)
    known = KnownFindings()
    rng = random.Random(seed)
    nk, maxlen = (7, 3) if tier == "quick" else (9, 4)
    lib = make_library(rng, nk)
    r, hists = tlc_histories(pid, nk, maxlen)
    rep.add_tlc(r)
    if tier != "quick":
        rng.shuffle(hists)
        hists = hists[:3000]
    ctx = repo.opt_main().ctx
    keep, cases = [], []

    def generic_of(k):
        mod = repo.parse(kernel_text(k))
        keep.append(mod)
        return [o for o in mod.walk() if isinstance(o, linalg.GenericOp)][0]
    pruned_something = 0
    for h in hists:
        ks = [lib[i - 1] for i in h]
        if len({(k[0], k[1]) for k in ks}) != 1:
            continue
        name = "hist:" + "-".join(str(i) for i in h)
        try:
            gens = [generic_of(k) for k in ks]
            pes = [convert_generic_body_to_phs(g, "acc", PatternRewriter(g)) for g in gens]
            g0 = generic_of(ks[0])
            abstract = convert_generic_body_to_phs(g0, "acc", PatternRewriter(g0))
            for j in range(1, len(ks)):
                gj = generic_of(ks[j])
                append_to_abstract_graph(convert_generic_body_to_phs(gj, "acc", PatternRewriter(gj)), abstract)
            decoded = []
            for pe in pes:
                try:
                    decoded.append({"ok": 1, "sw": [int(x) for x in decode_abstract_graph(abstract, pe)]})
                except Exception:
                    decoded.append({"ok": 0, "sw": []})
        except Exception:
            rep.skipped += 1       # merging / decoding problems are C20's business
            continue
        G = export_pe(abstract)
        hwmod = ModuleOp([abstract.clone()])
        try:
            PhsRemoveOneOptionSwitchesPass().apply(ctx, hwmod)
            hwmod.verify()
        except Exception as e:
            rep.evaluations += 1
            rep.violation(name, f"phs-remove-one-option-switches raised {type(e).__name__}: {str(e)[:160]}",
                          {"kernels": [kernel_text(k) for k in ks], "merged": str(abstract), "exception": traceback.format_exc(limit=6)})
            continue
        hwpe = [o for o in hwmod.walk() if isinstance(o, phs.PEOp)][0]
        H = export_pe(hwpe)
        pruned_something += H["nsw"] < G["nsw"]
        cases.append({"kind": "pehw", "name": name, "abstract": G, "hw": H, "kernels": [kernel_record(k) for k in ks], "decoded": decoded,
                      "text": str(abstract), "after": str(hwpe), "ktexts": [kernel_text(k) for k in ks]})
    rep.extra["histories_with_a_removed_switch"] = pruned_something
    if cases and pruned_something == 0:
        raise MachineryError("no merged PE had a one-option switch: the check would be vacuous")
    rep.rule = (f"every merge history of length <= {maxlen} over a per-run library of {nk} kernels (HistGen.tla, as C20) is replayed on the real merge / "
                "decode API; the merged PE then goes through the real phs-remove-one-option-switches; TLC checks on the exported pruned graph that no "
                "one-option choose is left, that it has exactly the switches the software configures (RealSwitches of the merged graph) and that under "
                "the decoded values it computes every merged kernel on all data in -2..2 (ObjCheck kind pehw)")
    for lo in range(0, len(cases), 1500):
        chunk = cases[lo:lo + 1500]
        r, verdicts = run_obj_batch(pid, chunk, tag=f"hw{lo}")
        rep.add_tlc(r)
        for tid, v in verdicts.items():
            c = chunk[tid - 1]
            rep.evaluations += 1
            rep.traces += 1
            if c["hw"]["nsw"] < c["abstract"]["nsw"]:
                rep.nontrivial.add(c["name"])
            if len(rep.samples) < 2 and c["hw"]["nsw"] < c["abstract"]["nsw"]:
                rep.samples.append({"history": c["name"], "merged": c["text"], "hardware_view": c["after"], "decoded": c["decoded"]})
            if v != "ok":
                rep.violation(c["name"], f"clause {v} fails; decoded {c['decoded']}", {"kernels": c["ktexts"], "merged": c["text"], "after": c["after"], "clause": v})
    return rep.finish(known)


def run(pid: str, tier: str, seed: int, selftest=False, replay=None) -> int:
    if pid == "E03":
        return run_streamify(pid, tier, seed)
    if pid == "E04":
        return run_fuse(pid, tier, seed)
    if pid == "E05":
        return run_pehw(pid, tier, seed)
    if pid == "E01":
        return run_resets(pid, tier, seed)
    if pid == "E02":
        return run_lowering(pid, tier, seed)
    raise MachineryError(f"unknown extra check {pid}")
