"""Object checks: batches of objects exported from real code, judged by spec/ObjCheck.tla."""
from __future__ import annotations

import json
import os

from common import WORK, MachineryError, run_tlc


def run_obj_batch(pid, cases, tag="obj", workers=16, timeout=3000, coverage=False, module="ObjCheck"):
    d = os.path.join(WORK, pid)
    os.makedirs(d, exist_ok=True)
    path = os.path.join(d, f"{tag}.json")
    with open(path, "w") as f:
        json.dump({"cases": cases}, f)
    r = run_tlc(module, module + ".cfg", env={"BATCH": path}, workers=workers, timeout=timeout, coverage=coverage)
    verdicts = {}
    for v in r.verdicts():
        verdicts[v[0]] = v[2]
    if r.error:
        raise MachineryError(f"TLC failed on {path}: {r.error}\n{r.out[-3000:]}")
    if len(verdicts) != len(cases):
        raise MachineryError(f"TLC verdict count {len(verdicts)} != {len(cases)} on {path}\n{r.out[-2000:]}")
    return r, verdicts


def export_affine(e):
    """xDSL AffineExpr -> tree (syntactic)."""
    from xdsl.ir.affine import AffineBinaryOpExpr, AffineBinaryOpKind, AffineConstantExpr, AffineDimExpr, AffineSymExpr

    if isinstance(e, AffineConstantExpr):
        return {"k": "const", "v": e.value}
    if isinstance(e, AffineDimExpr):
        return {"k": "dim", "v": e.position}
    if isinstance(e, AffineSymExpr):
        return {"k": "sym", "v": e.position}
    if isinstance(e, AffineBinaryOpExpr):
        k = {AffineBinaryOpKind.Add: "add", AffineBinaryOpKind.Mul: "mul", AffineBinaryOpKind.Mod: "mod",
             AffineBinaryOpKind.FloorDiv: "floordiv", AffineBinaryOpKind.CeilDiv: "ceildiv"}[e.kind]
        return {"k": k, "l": export_affine(e.lhs), "r": export_affine(e.rhs)}
    raise MachineryError(f"unknown affine expr {e!r}")


def export_tsl(t):
    """TiledStridedLayout -> record (dynamic entries -1)."""
    def n(x):
        return -1 if x is None else x
    return {"dims": [[{"b": n(s.bound), "s": n(s.step)} for s in ts.strides] for ts in t.tstrides], "off": n(t.offset)}
