"""C13: cross-core dependencies are separated by a cluster barrier; no core-specific barrier (deadlock)."""
from __future__ import annotations

import glob
import os
import random
import traceback

import repo  # noqa: F401
from checks_dispatch import ID, xdma_kernel_table
from common import KnownFindings, MachineryError, Report, text_hash
from export_ir import funcs_of
from pairs import default_argdom, image_of, oracle_at, run_pair_batch

T = "memref<16xi32>"
VIEWS_MODE = os.environ.get("VERIF_C13_VIEWS", "any")


class Gen:
    def __init__(self, rng, views=False, nested_producer=False, ifs=False):
        self.rng = rng
        self.lines = []
        self.tag = 0
        self.n = 0
        self.bufs = ["%a", "%b", "%c"]
        self.views = views
        self.root = {}          # view -> the buffer it (transitively) aliases
        self.nested_producer = nested_producer
        self.ifs = ifs
        self.loop_pool = None   # known findings (known/C13): dependencies across control-flow boundaries; loop bodies use their own buffers
        self.pre = []

    def emit(self, ind, s):
        self.lines.append("  " * ind + s)

    def pick(self, k):
        pool = self.loop_pool if self.loop_pool is not None else self.bufs
        return [self.rng.choice(pool) for _ in range(k)]

    def op(self, ind, loopdepth, depth=1):
        self.tag += 1
        r = self.rng.random()
        if self.views and loopdepth == 0 and depth == 1 and self.rng.random() < 0.25:
            r = 0.9        # more views in the programs that have them
        if r < 0.33:
            x, y = self.pick(2)
            self.emit(ind, f'"memref.copy"({x}, {y}) {{tag = {self.tag} : i32}} : ({T}, {T}) -> ()')
        elif r < 0.66:
            x, y, z = self.pick(3)
            self.emit(ind, f'linalg.generic {{indexing_maps = [{ID}, {ID}, {ID}], iterator_types = ["parallel"]}} ins({x}, {y} : {T}, {T}) outs({z} : {T}) attrs = {{tag = {self.tag} : i32}} {{')
            self.emit(ind, "^bb0(%x : i32, %y : i32, %z : i32):")
            self.emit(ind + 1, "%m = arith.muli %x, %y : i32")
            self.emit(ind + 1, "linalg.yield %m : i32")
            self.emit(ind, "}")
        elif r < 0.76:
            self.emit(ind, '"snax.cluster_sync_op"() : () -> ()')
        elif r < 0.86:
            (x,) = self.pick(1)
            self.emit(ind, f'"test.op"({x}) {{tag = {self.tag} : i32}} : ({T}) -> ()')
        elif r < 0.93 and loopdepth == 0 and depth == 1:
            self.n += 1
            if self.views and self.rng.random() < 0.8:
                # a view of a buffer (full-size subview or cast): from here on the buffer is reached through either name
                (x,) = self.pick(1)
                nb = f"%v{self.n}"
                if self.rng.random() < 0.6:
                    self.emit(ind, f"{nb} = memref.subview {x}[0] [16] [1] : {T} to {T}")
                else:
                    self.emit(ind, f'{nb} = "memref.cast"({x}) : ({T}) -> {T}')
                self.root[nb] = self.root.get(x, x)
                if self.rng.random() < 0.4:
                    # a view of the view (cast of a subview, subview of a cast): only the deeper one is used from here on
                    self.n += 1
                    nb2 = f"%v{self.n}"
                    if self.rng.random() < 0.5:
                        self.emit(ind, f"{nb2} = memref.subview {nb}[0] [16] [1] : {T} to {T}")
                    else:
                        self.emit(ind, f'{nb2} = "memref.cast"({nb}) : ({T}) -> {T}')
                    self.root[nb2] = self.root[nb]
                    nb = nb2
                if self.views == "replace":
                    self.bufs = [nb if b == x else b for b in self.bufs]     # ... through the new name only
                else:
                    self.bufs.append(nb)
                return
            nb = f"%l{self.n}"
            self.emit(ind, f"{nb} = memref.alloc() : {T}")
            self.bufs.append(nb)
        else:
            self.emit(ind, f'"test.op"() {{tag = {self.tag} : i32}} : () -> ()')

    def block(self, ind, depth, loopdepth):
        for _ in range(self.rng.randint(1, 4)):
            r = self.rng.random()
            if r < 0.7 or depth >= 3:
                self.op(ind, loopdepth, depth)
            elif (r < 0.9 and (loopdepth < 1 or self.nested_producer)) or (not self.ifs and loopdepth < 1):
                self.n += 1
                outer = self.loop_pool
                if outer is None:
                    self.loop_pool = [f"%lp{self.n}_{j}" for j in range(3)]
                    self.pre += [f"    {b} = memref.alloc() : {T}" for b in self.loop_pool]
                self.emit(ind, f"scf.for %i{self.n} = %c0 to {self.rng.choice(['%c1', '%c2', '%c3', '%n'])} step %c1 {{")
                self.block(ind + 1, depth + 1, loopdepth + 1)
                self.emit(ind, "}")
                self.loop_pool = outer
            elif not self.ifs:
                self.op(ind, loopdepth, depth)
            else:
                self.emit(ind, f"scf.if %p {{")
                self.block(ind + 1, depth + 1, loopdepth)
                self.emit(ind, "}")

    def program(self):
        """Known findings (known/C13): the pass is a linear walk, so dependencies across control-flow boundaries are not protected
        on every path.  Generated programs are therefore either straight-line (mode A) or a sequence of loops with straight-line
        bodies whose buffers are local to the loop, with no dispatchable op outside the loops (mode B)."""
        for c in range(4):
            self.emit(2, f"%c{c} = arith.constant {c} : index")
        if self.rng.random() < 0.55:
            for _ in range(self.rng.randint(2, 8)):
                self.op(2, 0, 1)
            # local buffers are freed right after their last use (as snax-allocate places deallocs), or at the end, or never
            for b in [b for b in self.bufs[3:] if b.startswith("%l")]:
                r = self.rng.random()
                names = [b] + [v for v, r0 in self.root.items() if r0 == b]
                uses = [i for i, l in enumerate(self.lines) if any((nm + t) in l for nm in names for t in (",", ")", " ", "["))]
                if r < 0.4 and uses:
                    at = uses[-1]
                    if "linalg.generic" in self.lines[at]:
                        while self.lines[at].strip() != "}":
                            at += 1
                    self.lines.insert(at + 1, "  " * 2 + f'"memref.dealloc"({b}) : ({T}) -> ()')
                elif r < 0.6:
                    self.emit(2, f'"memref.dealloc"({b}) : ({T}) -> ()')
        else:
            for _ in range(self.rng.randint(1, 3)):
                self.n += 1
                self.loop_pool = [f"%lp{self.n}_{j}" for j in range(3)]
                self.pre += [f"    {b} = memref.alloc() : {T}" for b in self.loop_pool]
                self.emit(2, f"scf.for %i{self.n} = %c0 to {self.rng.choice(['%c1', '%c2', '%c3', '%n'])} step %c1 {{")
                for _ in range(self.rng.randint(1, 6)):
                    self.op(3, 1, 2)
                self.emit(2, "}")
                self.loop_pool = None
                if self.rng.random() < 0.4:
                    self.tag += 1
                    self.emit(2, f'"test.op"() {{tag = {self.tag} : i32}} : () -> ()')
        self.emit(2, "func.return")
        body = "\n".join(self.pre + self.lines)
        return ("builtin.module {\n  func.func public @f(%a : " + T + ", %b : " + T + ", %c : " + T + ", %n : index, %p : i1) {\n" + body + "\n  }\n}\n"), body


def run(pid: str, tier: str, seed: int, selftest=False, replay=None) -> int:
    rep = Report(pid, tier, seed)
    known = KnownFindings()
    n = 250 if tier == "quick" else 4000
    xk = xdma_kernel_table()
    sources = []
    base = os.path.join(os.path.dirname(os.path.dirname(os.path.abspath(__file__))), "known", pid)
    for p in sorted(glob.glob(os.path.join(base, "*.mlir"))):
        sources.append((f"witness:{pid}/{os.path.basename(p)}", "builtin.module {\n" + open(p).read() + "\n}\n", None))
    for k in range(n):
        rng = random.Random(seed * 32452843 + k)
        text, body = Gen(rng, views=VIEWS_MODE if k % 3 == 0 else False).program()
        used = lambda a: any((a + t) in body for t in (" ", ",", ")", "\n"))
        argdom = [[900001], [900002], [900003], [0, 1, 2, 3] if used("%n") else [1], [0, 1] if used("%p") else [0]]
        sources.append((f"gen:{seed}:{k}", text, argdom))
    # systematic: a producer and a consumer of one buffer, each reaching it through the buffer itself, a view or a view of a view (taken in
    # front of both), every combination of names, operation classes and view kinds
    def gen_op(kind, src, dst, tag):
        if kind == "copy":
            return [f'    "memref.copy"({src}, {dst}) {{tag = {tag} : i32}} : ({T}, {T}) -> ()']
        return [f'    linalg.generic {{indexing_maps = [{ID}, {ID}, {ID}], iterator_types = ["parallel"]}} ins({src}, {src} : {T}, {T}) outs({dst} : {T}) attrs = {{tag = {tag} : i32}} {{',
                "    ^bb0(%x : i32, %y : i32, %z : i32):", "      %m = arith.muli %x, %y : i32", "      linalg.yield %m : i32", "    }"]
    for v1k in ("subview", "cast"):
        for v2k in ("subview", "cast"):
            def view(kind, new, old):
                return (f"    {new} = memref.subview {old}[0] [16] [1] : {T} to {T}" if kind == "subview" else f'    {new} = "memref.cast"({old}) : ({T}) -> {T}')
            pre = [view(v1k, "%v1", "%a"), view(v2k, "%v2", "%v1"), view(v1k, "%w1", "%a")]
            for k1 in ("copy", "generic"):
                for k2 in ("copy", "generic"):
                    for x in ("%a", "%v1", "%v2"):
                        for y in ("%a", "%v1", "%v2", "%w1"):
                            lines = pre + gen_op(k1, "%b", x, 1) + gen_op(k2, y, "%c", 2)
                            text = ("builtin.module {\n  func.func public @f(%a : " + T + ", %b : " + T + ", %c : " + T + ", %n : index, %p : i1) {\n"
                                    + "\n".join(lines) + "\n    func.return\n  }\n}\n")
                            sources.append((f"views:{v1k}-{v2k}:{k1}>{x}:{k2}<{y}", text, [[900001], [900002], [900003], [1], [0]]))
    # exhaustive small scope (spec/SeqGen.tla): every sequence of <= 3 (thorough: 4) copies / compute ops / readers / barriers over three
    # buffers, straight-line or as loops over loop-local buffers (the input class outside the known findings)
    from gen_seq import render_ops, tlc_sequences
    rg, seqs = tlc_sequences(pid, 8, 4, 2, False, nf=2)
    rep.add_tlc(rg)
    n_small = 0

    def in_class(toks):
        """straight-line code, or only loops at the top level whose bodies are straight-line or one perfectly nested loop (loop kinds:
        run-time trip count / constant single trip); quick tier: <= 3 nodes, plus all two-deep nests with two operations"""
        nloops = sum(t.startswith("F") for t in toks)
        nodes = sum(1 for t in toks if t != ")")
        if tier == "quick" and nodes > 3 and nloops < 2:
            return False
        if nloops == 0:
            return True
        d, stack = 0, []
        for i, t in enumerate(toks):
            if t.startswith("F"):
                if d >= 1 and not toks[i - 1].startswith("F"):
                    return False
                stack.append(i)
                d += 1
            elif t == ")":
                stack.pop()
                d -= 1
                if d >= 1 and (i + 1 >= len(toks) or toks[i + 1] != ")"):
                    return False
            elif d == 0:
                return False
        return True
    for toks in seqs:
        if not in_class(toks):
            continue
        text, body, un, up = render_ops(toks, True)
        sources.append(("small:" + " ".join(toks), text, [[900001], [900002], [900003], [0, 1, 2] if un else [1], [0]]))
        n_small += 1
    rep.extra["small_scope_programs"] = n_small
    c_bar, c_disp, c_low = [], [], []
    for name, text, argdom in sources:
        try:
            src = repo.parse(text)
            src.verify()
        except Exception as e:
            if name.startswith("gen:") or name.startswith("small:"):
                raise MachineryError(f"generator produced invalid input {name}: {e}\n{text}")
            rep.skipped += 1
            continue
        m = src.clone()
        try:
            repo.run_pipeline(m, "insert-sync-barrier")
        except Exception as e:
            rep.evaluations += 1
            rep.violation(name, f"insert-sync-barrier raised {type(e).__name__}: {str(e)[:200]}", {"source": text, "exception": traceback.format_exc(limit=8)})
            continue
        fsrc, fbar = funcs_of(src), funcs_of(m)
        fname = "f" if "f" in fsrc else list(fsrc)[0]
        ad = argdom if argdom is not None else default_argdom(fsrc[fname], 16)
        ia, ib = image_of(fsrc[fname]), image_of(fbar[fname])
        ia["allocsite"] = ib["allocsite"] = 1
        c_bar.append({"name": name, "A": ia, "B": ib, "argdom": ad, "opqdom": [[0]], "extra": {"xk": xk, "ncores": 2},
                      "text": text, "after": str(fbar[fname])})
        d = m.clone()
        try:
            repo.run_pipeline(d, "dispatch-regions{nb_cores=2}")
        except Exception as e:
            rep.violation(name + "|dispatch", f"dispatch-regions raised {type(e).__name__}: {str(e)[:200]}", {"source": text})
            continue
        idisp = image_of(funcs_of(d)[fname])
        idisp["allocsite"] = 1
        c_disp.append({"name": name + "|dispatched", "A": ib, "B": idisp, "argdom": ad, "opqdom": [[0]], "coredom": [0, 1],
                       "extra": {"xk": xk, "ncores": 2}, "text": text, "after": str(funcs_of(d)[fname])})
        # lowering of the barriers to runtime calls (snax-to-func): every barrier is still there, on every core and path
        low = d.clone()
        try:
            repo.run_pipeline(low, "snax-to-func")
        except Exception as e:
            rep.violation(name + "|lowered", f"snax-to-func raised {type(e).__name__}: {str(e)[:200]}", {"source": text})
            continue
        ilow = image_of(funcs_of(low)[fname])
        ilow["allocsite"] = 1
        c_low.append({"name": name + "|lowered", "A": idisp, "B": ilow, "argdom": ad, "opqdom": [[0]], "coredom": [0, 1],
                      "extra": {"xk": xk, "ncores": 2}, "text": text, "after": str(funcs_of(low)[fname])})
    rep.rule = (f"witnesses + {n} generated functions mixing memref.copy (data mover), linalg.generic (compute), all-core readers, allocs, deallocs, "
                "pre-existing barriers in straight-line code, ifs and loops; through the real insert-sync-barrier (contract Barriers: only barriers are "
                "inserted; in the sequential trace for every trip count a barrier lies between any single-core op and a later conflicting op on another "
                "core, incl. around back-edges) and then dispatch-regions (every core executes every barrier: equal barrier sequences => no deadlock); "
                "non-trivial = program with a dm op and a compute op")
    # design level: the trace form used below implies race freedom and deadlock freedom under EVERY interleaving (Cluster.tla)
    from common import run_tlc
    r = run_tlc("Cluster", "MC_Cluster.cfg" if tier == "quick" else "MC_Cluster4.cfg", workers=16, timeout=1200, deadlock=True)
    rep.add_tlc(r)
    rep.extra["cluster_interleaving_model_states"] = r.distinct
    if r.invariant_violated or r.deadlock or r.error:
        rep.violation("spec:Cluster", f"the cluster interleaving model disagrees with the trace form: {r.invariant_violated or r.error or 'deadlock'}",
                      {"tlc": r.out[-3000:]})
    rn = run_tlc("Cluster", "MC_Cluster_neg.cfg", workers=16, timeout=600, deadlock=True)
    rep.extra["cluster_negative_control_finds_race"] = bool(rn.invariant_violated == "NoRaceState")
    if rn.invariant_violated != "NoRaceState":
        raise MachineryError("negative control of the cluster model did not find a race")
    for contract, cases in (("barriers", c_bar), ("dispatch", c_disp), ("lowered", c_low)):
        CH = 300
        for lo in range(0, len(cases), CH):
            chunk = cases[lo:lo + CH]
            r, per = run_pair_batch(pid, contract, chunk, tag=f"{contract}{lo}", coverage=(lo == 0))
            rep.add_tlc(r)
            for tid, vs in per.items():
                c = chunk[tid - 1]
                rep.evaluations += len(vs)
                if all(v[1].startswith("skipA") for v in vs):
                    rep.skipped += 1
                    rep.extra.setdefault("skip_reasons", {})
                    rep.extra["skip_reasons"][vs[0][1]] = rep.extra["skip_reasons"].get(vs[0][1], 0) + 1
                    continue
                rep.traces += 1
                if "memref.copy" in c["text"] and "linalg.generic" in c["text"]:
                    rep.nontrivial.add(text_hash(c["text"]))
                if len(rep.samples) < 2 and contract == "barriers" and "cluster_sync_op" in c["after"]:
                    rep.samples.append({"case": c["name"], "source": c["text"], "after": c["after"][:3000]})
                bad = [v for v in vs if v[1] != "ok" and not v[1].startswith("skipA")]
                if bad:
                    oi, verdict, na, nb = sorted(bad)[0]
                    o = oracle_at(c, oi)
                    key = c["name"].split("|")[0]
                    rep.violation(key, f"clause {verdict} fails for inputs {o['args'][3:]} core {o['core']} ({len(bad)}/{len(vs)} oracles)",
                                  {"source": c["text"], "after": c["after"], "oracle": o, "clause": verdict})
    return rep.finish(known)
