"""C10: every view of a tiled-strided layout agrees with spec/Layout.tla."""
from __future__ import annotations

import itertools
import random

import repo  # noqa: F401
from common import KnownFindings, MachineryError, Report
from objs import export_affine, export_tsl, run_obj_batch

STEPS = [1, 2, 3, 4, 6, 8, 9, 12, 16, 24, 32]


def parse_tsl_text(text):
    from xdsl.parser import Parser
    ctx = repo.opt_main().ctx
    return Parser(ctx, f"#tsl.tsl<{text}>").parse_attribute().data


def make_case(tsl, rng, name):
    from snaxc.dialects.tsl import TiledStridedLayoutAttr
    from snaxc.ir.tsl import Stride, TiledStride, TiledStridedLayout

    attr = TiledStridedLayoutAttr(tsl)
    canon = tsl.canonicalize()
    c = {"name": name, "L": export_tsl(tsl), "canon": export_tsl(canon), "canon2": export_tsl(canon.canonicalize()),
         "reparsed": export_tsl(parse_tsl_text(str(tsl))), "canon_reparsed": export_tsl(parse_tsl_text(str(canon))),
         "text": str(tsl)}
    if tsl.is_dynamic() or tsl.offset is None:
        c["kind"] = "tsl_dyn"
        return c
    c["kind"] = "tsl"
    c["affine"] = export_affine(attr.get_affine_map().results[0])
    c["allvalues"] = [int(v) for v in tsl.all_values()]
    c["overlaps"] = 1 if tsl.self_overlaps() else 0
    c["dense"] = 1 if tsl.is_dense() else 0
    # from_strides with this layout's tile bounds and the innermost steps
    strides = [ts.strides[-1].step for ts in tsl.tstrides]
    tb = [[s.bound for s in ts.strides] for ts in tsl.tstrides]
    off = rng.choice([0, 5])
    fs = TiledStridedLayout.from_strides(strides, tb, off)
    c["fs"] = {"strides": strides, "tilebounds": tb, "off": off, "result": export_tsl(fs)}
    # other layout for the common contiguous block: same tile bounds, some steps perturbed
    other_dims = []
    for ts in tsl.tstrides:
        other_dims.append(TiledStride([Stride(s.step if rng.random() < 0.7 else rng.choice(STEPS), s.bound) for s in ts.strides]))
    other = TiledStridedLayout(other_dims, offset=0)
    start = rng.choice([1, 1, 2, 4])
    blk = tsl.largest_common_contiguous_block(other, start)
    c["lcb"] = {"other": export_tsl(other), "start": start, "result": [{"b": s.bound, "s": s.step} for s in blk]}
    return c


def enum_layouts(tier, rng):
    from snaxc.ir.tsl import Stride, TiledStride, TiledStridedLayout
    out = []
    # exhaustive: rank 1, depth 1..3, bounds 1..3, steps from a small set
    small_steps = [1, 2, 3, 4, 6, 8]
    for depth in (1, 2, 3):
        for bounds in itertools.product((1, 2, 3), repeat=depth):
            for steps in itertools.product(small_steps if depth < 3 else (1, 2, 4, 6), repeat=depth):
                out.append(TiledStridedLayout([TiledStride([Stride(s, b) for s, b in zip(steps, bounds)])], offset=0))
    if tier == "quick":
        rng.shuffle(out)
        out = out[:1500]
    # random: rank 1..4, depth 1..3, offsets, repeated steps, unit bounds
    n_rand = 2500 if tier == "quick" else 40000
    for _ in range(n_rand):
        rank = rng.choice([1, 2, 2, 3, 4])
        dims = []
        total = 1
        for _d in range(rank):
            depth = rng.choice([1, 2, 2, 3])
            bounds = [rng.choice([1, 2, 2, 3, 4]) for _ in range(depth)]
            while total * _prod(bounds) > 200:
                bounds[rng.randrange(depth)] = 1
            total *= _prod(bounds)
            dims.append(TiledStride([Stride(rng.choice(STEPS), b) for b in bounds]))
        out.append(TiledStridedLayout(dims, offset=rng.choice([0, 0, 5, 7])))
    # dynamic layouts: outermost bound/step dynamic, dynamic offset
    for _ in range(300 if tier == "quick" else 3000):
        rank = rng.choice([1, 2, 3])
        dims = []
        for _d in range(rank):
            depth = rng.choice([1, 2, 3])
            strides = [Stride(rng.choice(STEPS), rng.choice([1, 2, 4, 8])) for _ in range(depth)]
            if rng.random() < 0.6:
                strides[0] = Stride(None if rng.random() < 0.7 else strides[0].step, None)
            dims.append(TiledStride(strides))
        out.append(TiledStridedLayout(dims, offset=rng.choice([0, 3, None])))
    return out


def _prod(xs):
    p = 1
    for x in xs:
        p *= x
    return p


def run(pid: str, tier: str, seed: int, selftest=False, replay=None) -> int:
    rep = Report(pid, tier, seed)
    known = KnownFindings()
    rng = random.Random(seed)
    layouts = enum_layouts(tier, rng)
    cases = []
    for k, tsl in enumerate(layouts):
        try:
            cases.append(make_case(tsl, rng, f"tsl:{k}"))
        except MachineryError:
            raise
        except Exception as e:
            rep.evaluations += 1
            rep.violation(f"layout:{tsl}", f"a TSL view raised {type(e).__name__}: {str(e)[:200]}", {"layout": str(tsl)})
    rep.rule = ("layouts: exhaustive rank-1 depth<=3 bounds 1..3 small steps (sampled in quick), random rank<=4 depth<=3 with offsets/unit bounds/"
                "repeated steps, dynamic outermost entries; each view exported from the real code (get_affine_map, all_values, self_overlaps, "
                "is_dense, canonicalize, print->parse, from_strides, largest_common_contiguous_block) is compared by TLC with Layout.tla on "
                "every index of the box; non-trivial = distinct layout text")
    CH = 1500
    for lo in range(0, len(cases), CH):
        chunk = cases[lo:lo + CH]
        r, verdicts = run_obj_batch(pid, chunk, tag=f"batch{lo}", coverage=(lo == 0))
        rep.add_tlc(r)
        for tid, v in verdicts.items():
            c = chunk[tid - 1]
            rep.evaluations += 1
            rep.traces += 1
            rep.nontrivial.add(c["text"])
            if len(rep.samples) < 3:
                rep.samples.append({k: c[k] for k in ("text", "L", "canon", "kind")})
            if v != "ok":
                rep.violation(f"layout:{c['text']}", f"clause {v} fails for layout {c['text']}", {"case": c, "clause": v})
    return rep.finish(known)
