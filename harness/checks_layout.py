"""C10: every view of a tiled-strided layout agrees with spec/Layout.tla."""
from __future__ import annotations

import itertools
import random

import repo  # noqa: F401
from common import KnownFindings, MachineryError, Report
from export_ir import funcs_of
from objs import export_affine, export_tsl, run_obj_batch
from pairs import image_of, oracle_at, run_pair_batch

STEPS = [1, 2, 3, 4, 6, 8, 9, 12, 16, 24, 32]


def parse_tsl_text(text):
    from xdsl.parser import Parser
    ctx = repo.opt_main().ctx
    return Parser(ctx, f"#tsl.tsl<{text}>").parse_attribute().data


def make_case(tsl, rng, name):
    from snaxc.dialects.tsl import TiledStridedLayoutAttr
    from snaxc.ir.tsl import Stride, TiledStride, TiledStridedLayout

    attr = TiledStridedLayoutAttr(tsl)
    canon = tsl.canonicalize()
    c = {"name": name, "L": export_tsl(tsl), "canon": export_tsl(canon), "canon2": export_tsl(canon.canonicalize()),
         "reparsed": export_tsl(parse_tsl_text(str(tsl))), "canon_reparsed": export_tsl(parse_tsl_text(str(canon))),
         "text": str(tsl)}
    # through the IR: the attribute as xDSL prints it inside a memref type of a module, re-parsed by the IR parser
    from xdsl.parser import Parser
    shape = "x".join("?" if any(s.bound is None for s in ts.strides) else str(_prod([s.bound for s in ts.strides])) for ts in tsl.tstrides)
    mod_text = f"builtin.module {{\n  func.func private @f(memref<{shape}xi8, {attr}>) -> ()\n}}\n"
    mod = Parser(repo.opt_main().ctx, mod_text).parse_module()
    printed = str(mod)
    mod2 = Parser(repo.opt_main().ctx, printed).parse_module()
    fn2 = [o for o in mod2.walk() if o.name == "func.func"][0]
    c["attr_reparsed"] = export_tsl(fn2.function_type.inputs.data[0].layout.data)
    if tsl.is_dynamic() or tsl.offset is None:
        c["kind"] = "tsl_dyn"
        return c
    c["kind"] = "tsl"
    c["affine"] = export_affine(attr.get_affine_map().results[0])
    c["allvalues"] = [int(v) for v in tsl.all_values()]
    c["overlaps"] = 1 if tsl.self_overlaps() else 0
    c["dense"] = 1 if tsl.is_dense() else 0
    # from_strides with this layout's tile bounds and the innermost steps
    strides = [ts.strides[-1].step for ts in tsl.tstrides]
    tb = [[s.bound for s in ts.strides] for ts in tsl.tstrides]
    off = rng.choice([0, 5])
    fs = TiledStridedLayout.from_strides(strides, tb, off)
    c["fs"] = {"strides": strides, "tilebounds": tb, "off": off, "result": export_tsl(fs)}
    # other layout for the common contiguous block: same tile bounds, some steps perturbed
    other_dims = []
    for ts in tsl.tstrides:
        other_dims.append(TiledStride([Stride(s.step if rng.random() < 0.7 else rng.choice(STEPS), s.bound) for s in ts.strides]))
    other = TiledStridedLayout(other_dims, offset=0)
    start = rng.choice([1, 1, 2, 4])
    blk = tsl.largest_common_contiguous_block(other, start)
    c["lcb"] = {"other": export_tsl(other), "start": start, "result": [{"b": s.bound, "s": s.step} for s in blk]}
    # other tilings of the same shape (other tile bounds at a level, same steps): common block in both directions, and equality
    c["lcbs"], c["eqs"] = [], []
    for _ in range(2):
        dims2 = []
        for ts in tsl.tstrides:
            st = list(ts.strides)
            if len(st) >= 2 and rng.random() < 0.7:
                j = rng.randrange(len(st) - 1)
                b0, b1 = st[j].bound, st[j + 1].bound
                nb0, nb1 = (b1, b0) if b0 != b1 else ((b0 * b1, 1) if rng.random() < 0.5 else (1, b0 * b1))
                st[j], st[j + 1] = Stride(st[j].step, nb0), Stride(st[j + 1].step, nb1)
            dims2.append(TiledStride(st))
        o2 = TiledStridedLayout(dims2, offset=tsl.offset)
        for a, b in ((tsl, o2), (o2, tsl)):
            blk2 = a.largest_common_contiguous_block(b, start)
            c["lcbs"].append({"self": export_tsl(a), "other": export_tsl(b), "start": start, "result": [{"b": s.bound, "s": s.step} for s in blk2]})
        c["eqs"].append({"other": export_tsl(o2), "equal": 1 if (tsl == o2 and TiledStridedLayoutAttr(tsl) == TiledStridedLayoutAttr(o2)) or tsl == o2 else 0})
    return c


def enum_layouts(tier, rng):
    from snaxc.ir.tsl import Stride, TiledStride, TiledStridedLayout
    out = []
    # exhaustive: rank 1, depth 1..3, bounds 1..3, steps from a small set
    small_steps = [1, 2, 3, 4, 6, 8]
    for depth in (1, 2, 3):
        for bounds in itertools.product((1, 2, 3), repeat=depth):
            for steps in itertools.product(small_steps if depth < 3 else (1, 2, 4, 6), repeat=depth):
                out.append(TiledStridedLayout([TiledStride([Stride(s, b) for s, b in zip(steps, bounds)])], offset=0))
    if tier == "quick":
        rng.shuffle(out)
        out = out[:1500]
    # random: rank 1..4, depth 1..3, offsets, repeated steps, unit bounds
    n_rand = 2500 if tier == "quick" else 40000
    for _ in range(n_rand):
        rank = rng.choice([1, 2, 2, 3, 4])
        dims = []
        total = 1
        for _d in range(rank):
            depth = rng.choice([1, 2, 2, 3])
            bounds = [rng.choice([1, 2, 2, 3, 4]) for _ in range(depth)]
            while total * _prod(bounds) > 200:
                bounds[rng.randrange(depth)] = 1
            total *= _prod(bounds)
            dims.append(TiledStride([Stride(rng.choice(STEPS), b) for b in bounds]))
        out.append(TiledStridedLayout(dims, offset=rng.choice([0, 0, 5, 7])))
    # dynamic layouts: outermost bound/step dynamic, dynamic offset
    for _ in range(300 if tier == "quick" else 3000):
        rank = rng.choice([1, 2, 3])
        dims = []
        for _d in range(rank):
            depth = rng.choice([1, 2, 3])
            strides = [Stride(rng.choice(STEPS), rng.choice([1, 2, 4, 8])) for _ in range(depth)]
            if rng.random() < 0.6:
                strides[0] = Stride(None if rng.random() < 0.7 else strides[0].step, None)
            dims.append(TiledStride(strides))
        out.append(TiledStridedLayout(dims, offset=rng.choice([0, 3, None])))
    return out


EL = {"i8": 1, "i16": 2, "i32": 4, "i64": 8}
DYN = -9223372036854775808


def gen_static_tsl(rng, max_elems=128):
    """-> (dims as [[(bound, step)]], shape)"""
    rank = rng.choice([1, 2, 2, 3])
    dims, total = [], 1
    for _ in range(rank):
        depth = rng.choice([1, 2, 2, 3])
        bounds = [rng.choice([1, 2, 2, 3, 4]) for _ in range(depth)]
        while total * _prod(bounds) > max_elems:
            bounds[rng.randrange(depth)] = 1
        total *= _prod(bounds)
        dims.append([(b, rng.choice(STEPS)) for b in bounds])
    return dims, [_prod([b for b, _ in d]) for d in dims]


def tsl_text(dims, dynb=(), dyns=()):
    parts = []
    for d, lv in enumerate(dims):
        bs = ", ".join("?" if (d, j) in dynb else str(b) for j, (b, _) in enumerate(lv))
        ss = ", ".join("?" if (d, j) in dyns else str(st) for j, (_, st) in enumerate(lv))
        parts.append(f"[{bs}] -> ({ss})")
    return ", ".join(parts)


def subviewptr_case(rng, name):
    """pointer of a subview of a TSL buffer at tile-aligned offsets, lowered by the real convert-memref-to-arith"""
    dims, shape = gen_static_tsl(rng)
    el = rng.choice(list(EL))
    lay = tsl_text(dims)
    srct = f"memref<{'x'.join(str(x) for x in shape)}x{el}, #tsl.tsl<{lay}>>"
    offspec, static_offs, dyn_args, argdom, args_txt = [], [], [], [[900001]], ""
    sizes = []
    for d, lv in enumerate(dims):
        inner = _prod([b for b, _ in lv[1:]])
        outer = lv[0][0]
        aligned = [k * inner for k in range(outer)]
        if rng.random() < 0.6:
            dyn_args.append(f"%o{d}")
            args_txt += f", %o{d} : index"
            argdom.append(sorted(set(rng.sample(aligned, min(len(aligned), 3)))))
            offspec.append({"arg": len(argdom), "const": 0})
            static_offs.append(DYN)
            sizes.append(inner if max(argdom[-1]) + inner <= shape[d] else 1)
        else:
            v = rng.choice(aligned)
            offspec.append({"arg": 0, "const": v})
            static_offs.append(v)
            sizes.append(inner if v + inner <= shape[d] else 1)
    rest = f"memref<{'x'.join(str(x) for x in sizes)}x{el}, strided<[{', '.join('?' for _ in sizes)}], offset: ?>>"
    nd = len(dyn_args)
    text = f"""builtin.module {{
  func.func public @f(%src : {srct}{args_txt}) {{
    %sv = "memref.subview"(%src{''.join(', ' + a for a in dyn_args)}) <{{operandSegmentSizes = array<i32: 1, {nd}, 0, 0>, static_offsets = array<i64: {', '.join(str(x) for x in static_offs)}>, static_sizes = array<i64: {', '.join(str(x) for x in sizes)}>, static_strides = array<i64: {', '.join('1' for _ in sizes)}>}}> : ({srct}{', index' * nd}) -> {rest}
    %p = "memref.extract_aligned_pointer_as_index"(%sv) : ({rest}) -> index
    "test.op"(%p) : (index) -> ()
    func.return
  }}
}}
"""
    L = {"dims": [[{"b": b, "s": st} for b, st in lv] for lv in dims], "off": 0}
    desc = {"valid": 1, "base": rng.choice([0, 64, 192]), "off": 0, "sizes": shape, "strides": [1] * len(shape), "L": L}
    return {"name": name, "text": text, "pipe": "convert-memref-to-arith", "argdom": argdom, "descdom": [[desc]],
            "extra": {"what": "subviewptr", "L": L, "w": EL[el], "offspec": offspec, "inj": 0}, "layout": lay}


def boundstep_case(rng, name):
    """the IR the real get_bound_ops / get_step_ops generate for a (partly dynamic) layout, executed for run-time sizes.
    Layouts are built from a level order (steps = running product, optional gap), so they are one-to-one; the outermost levels of some
    dimensions are dynamic: they are the slowest levels, the rightmost dimension fastest (the documented row-major-like convention),
    so the layout resolved at run time must be one-to-one again."""
    el = rng.choice(list(EL))
    in_bytes = rng.random() < 0.5
    rank = rng.choice([1, 2, 2, 3])
    bounds = []
    for _ in range(rank):
        depth = rng.choice([1, 2, 2, 3])
        bounds.append([rng.choice([1, 2, 2, 3, 4]) for _ in range(depth)])
    while _prod([b for lv in bounds for b in lv]) > 48:
        d = rng.randrange(rank)
        bounds[d][rng.randrange(len(bounds[d]))] = 1
    dyn_dims = [d for d in range(rank) if rng.random() < 0.5]
    static_levels = [(d, j) for d in range(rank) for j in range(len(bounds[d])) if not (j == 0 and d in dyn_dims)]
    rng.shuffle(static_levels)
    order = static_levels + [(d, 0) for d in sorted(dyn_dims, reverse=True)]
    steps, cur = {}, rng.choice([1, 1, 2])
    for (d, j) in order:
        steps[(d, j)] = cur
        cur *= bounds[d][j]
        if rng.random() < 0.15 and (d, j) in static_levels and (d, j) != static_levels[-1]:
            cur *= 2     # gap (only below the slowest static level: the dynamic steps continue from max static step * its bound)
    dims = [[(bounds[d][j], steps[(d, j)]) for j in range(len(bounds[d]))] for d in range(rank)]
    shape = [_prod(b) for b in bounds]
    dynb = {(d, 0) for d in dyn_dims}
    dyns = set(dynb)
    if dyn_dims and rng.random() < 0.4 and static_levels:
        dyns.discard((max(dyn_dims), 0))      # the fastest dynamic level may keep its (correct) static step
    lay = tsl_text(dims, dynb, dyns)
    shp = "x".join("?" if (d, 0) in dynb else str(shape[d]) for d in range(rank))
    srct = f"memref<{shp}x{el}, #tsl.tsl<{lay}>>"
    text = f"""builtin.module {{
  func.func public @f(%src : {srct}) {{
    "test.op"() : () -> ()
    func.return
  }}
}}
"""
    alts = []
    for _ in range(4):
        sizes = []
        for d in range(rank):
            inner = _prod(bounds[d][1:])
            sizes.append(inner * rng.choice([1, 2, 3]) if d in dyn_dims else shape[d])
        if _prod(sizes) <= 150 and sizes not in alts:
            alts.append(sizes)
    if not alts:
        alts = [[_prod(bounds[d][1:]) if d in dyn_dims else shape[d] for d in range(rank)]]
    L = {"dims": [[{"b": -1 if (d, j) in dynb else b, "s": -1 if (d, j) in dyns else st} for j, (b, st) in enumerate(lv)]
                  for d, lv in enumerate(dims)], "off": 0}
    descdom = [[{"valid": 1, "base": 0, "off": 0, "sizes": sz, "strides": [1] * len(sz), "L": L}] for sz in alts]
    return {"name": name, "text": text, "pipe": None, "argdom": [[900001]], "descdom": descdom, "in_bytes": in_bytes,
            "extra": {"what": "boundstep", "L": L, "w": EL[el] if in_bytes else 1, "offspec": [], "inj": 1}, "layout": lay}


def build_boundstep(mod, in_bytes):
    """replace the placeholder test.op by the ops of the real get_bound_ops/get_step_ops and a test.op observing all of them"""
    from xdsl.dialects import test
    fn = funcs_of(mod)["f"]
    blk = fn.body.block
    src = blk.args[0]
    attr = src.type.layout
    bops, bmap = attr.get_bound_ops(src)
    sops, smap = attr.get_step_ops(bmap, src, in_bytes)
    keys = [(d, j) for d, ts in enumerate(attr.data.tstrides) for j in range(ts.depth())]
    obs = test.TestOp(operands=[bmap[k].results[0] for k in keys] + [smap[k].results[0] for k in keys])
    old = blk.first_op
    blk.insert_ops_before([*bops, *sops, obs], old)
    blk.erase_op(old)
    mod.verify()


def run_ir_part(pid, tier, seed, rep):
    rng = random.Random(seed * 31 + 7)
    n = 300 if tier == "quick" else 6000
    cases = []
    for k in range(n):
        c = subviewptr_case(rng, f"subviewptr:{seed}:{k}") if k % 2 == 0 else boundstep_case(rng, f"boundstep:{seed}:{k}")
        try:
            m = repo.parse(c["text"])
            m.verify()
        except Exception as e:
            raise MachineryError(f"generator produced invalid input {c['name']}: {e}\n{c['text']}")
        try:
            if c["pipe"]:
                repo.run_pipeline(m, c["pipe"])
            else:
                build_boundstep(m, c["in_bytes"])
        except Exception as e:
            rep.evaluations += 1
            rep.violation(c["name"], f"{c['pipe'] or 'get_bound_ops/get_step_ops'} raised {type(e).__name__}: {str(e)[:200]} for {c['layout']}",
                          {"source": c["text"]})
            continue
        fn = funcs_of(m)["f"]
        if c["pipe"] and any(o.name == "memref.extract_aligned_pointer_as_index" and getattr(o.operands[0].owner, "name", "") == "memref.subview" for o in fn.walk()):
            rep.refused += 1     # the pass left the pointer extraction alone
            continue
        img = image_of(fn)
        trivial = {"name": "f", "nv": 1, "ops": [dict(img["ops"][-1], a=[], r=[])], "args": [1], "ty": ["m"], "w": [0], "msp": [""],
                   "sacc": [""], "claims": [], "thr": 1, "logsetup": 0, "dma": 0, "memtop": 0, "srctop": 0, "allocsite": 0, "track": 0}
        cases.append({"name": c["name"], "A": trivial, "B": img, "argdom": c["argdom"], "opqdom": [[0]], "descdom": c["descdom"],
                      "extra": c["extra"], "text": c["text"], "after": str(fn), "layout": c["layout"]})
    CH = 400
    for lo in range(0, len(cases), CH):
        chunk = cases[lo:lo + CH]
        r, per = run_pair_batch(pid, "tslops", chunk, tag=f"ir{lo}")
        rep.add_tlc(r)
        for tid, vs in per.items():
            c = chunk[tid - 1]
            rep.evaluations += len(vs)
            rep.traces += 1
            rep.nontrivial.add(c["name"].split(":")[0] + c["layout"])
            if sum(1 for x in rep.samples if "after" in x) < 1:
                rep.samples.append({"case": c["name"], "source": c["text"], "after": c["after"][:2000]})
            bad = [v for v in vs if v[1] != "ok"]
            if bad:
                oi, verdict, _, _ = sorted(bad)[0]
                o = oracle_at(c, oi)
                rep.violation(c["name"], f"clause {verdict} fails for layout {c['layout']} offsets/sizes {o['args'][1:]} {o['desc'][0]['sizes']} "
                              f"({len(bad)}/{len(vs)} run-time inputs)", {"source": c["text"], "after": c["after"], "clause": verdict, "oracle": o})
    rep.extra["ir_cases"] = len(cases)


def _prod(xs):
    p = 1
    for x in xs:
        p *= x
    return p


def run(pid: str, tier: str, seed: int, selftest=False, replay=None) -> int:
    rep = Report(pid, tier, seed)
    known = KnownFindings()
    rng = random.Random(seed)
    layouts = enum_layouts(tier, rng)
    cases = []
    for k, tsl in enumerate(layouts):
        try:
            cases.append(make_case(tsl, rng, f"tsl:{k}"))
        except MachineryError:
            raise
        except Exception as e:
            rep.evaluations += 1
            rep.violation(f"layout:{tsl}", f"a TSL view raised {type(e).__name__}: {str(e)[:200]}", {"layout": str(tsl)})
    rep.rule = ("layouts: exhaustive rank-1 depth<=3 bounds 1..3 small steps (sampled in quick), random rank<=4 depth<=3 with offsets/unit bounds/"
                "repeated steps, dynamic outermost entries; each view exported from the real code (get_affine_map, all_values, self_overlaps, "
                "is_dense, canonicalize, print->parse, from_strides, largest_common_contiguous_block) is compared by TLC with Layout.tla on "
                "every index of the box; IR views: the ops of the real get_bound_ops/get_step_ops (static and dynamic outermost entries, in elements and "
                "in bytes) and the subview pointer arithmetic of the real convert-memref-to-arith are executed on IRMachine for run-time sizes / "
                "tile-aligned offsets and compared with Layout.tla (contract tslops); non-trivial = distinct layout text")
    CH = 1500
    for lo in range(0, len(cases), CH):
        chunk = cases[lo:lo + CH]
        r, verdicts = run_obj_batch(pid, chunk, tag=f"batch{lo}", coverage=(lo == 0))
        rep.add_tlc(r)
        for tid, v in verdicts.items():
            c = chunk[tid - 1]
            rep.evaluations += 1
            rep.traces += 1
            rep.nontrivial.add(c["text"])
            if len(rep.samples) < 3:
                rep.samples.append({k: c[k] for k in ("text", "L", "canon", "kind")})
            if v != "ok":
                rep.violation(f"layout:{c['text']}", f"clause {v} fails for layout {c['text']}", {"case": c, "clause": v})
    run_ir_part(pid, tier, seed, rep)
    return rep.finish(known)
