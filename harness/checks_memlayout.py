"""C09: layouts chosen by set-memory-layout are one-to-one on the operand and cover its shape."""
from __future__ import annotations

import random
import traceback

import repo  # noqa: F401
from common import KnownFindings, MachineryError, Report
from objs import export_tsl, run_obj_batch

WIDTHS = {"i8": 8, "i16": 16, "i32": 32, "i64": 64}


def gen_schedule(rng):
    """Returns (text, description) of a function with one dart.schedule op."""
    acc = rng.choice(["snax_alu", "snax_alu", "snax_gemmx"])
    ty = rng.choice(list(WIDTHS))
    rank = rng.choice([1, 2, 2, 3])
    # loops: each operand dim is covered by 1..2 loops (tiled) and optionally an extra sliding loop (conv-like)
    loops = []   # (bound)
    keep_order = False
    dim_exprs = []  # per operand dim: list of (loop index, coeff)
    shape = []
    for d in range(rank):
        kind = rng.choice(["plain", "plain", "tiled", "tiled", "tiled3", "slide"])
        if kind == "plain":
            b = rng.choice([1, 2, 3, 4, 6, 8, 12, 16])
            loops.append(b)
            dim_exprs.append([(len(loops) - 1, 1)])
            shape.append(b)
        elif kind == "tiled":
            t = rng.choice([1, 2, 4, 8])          # unit-trip loops are what tiling leaves behind for a dimension it does not split
            o = rng.choice([1, 2, 3, 4])
            loops += [o, t]
            dim_exprs.append([(len(loops) - 2, t), (len(loops) - 1, 1)])
            shape.append(o * t)
        elif kind == "tiled3":
            # three tile levels of one dimension (a chain of contiguous tiles when the loops stay next to each other)
            t, mid, o = rng.choice([2, 4, 8]), rng.choice([2, 4]), rng.choice([2, 3])
            loops += [o, mid, t]
            dim_exprs.append([(len(loops) - 3, mid * t), (len(loops) - 2, t), (len(loops) - 1, 1)])
            shape.append(o * mid * t)
            keep_order = keep_order or rng.random() < 0.6
        else:
            a, f = rng.choice([4, 6, 8]), rng.choice([1, 2, 3])
            loops += [a, f]
            dim_exprs.append([(len(loops) - 2, 1), (len(loops) - 1, 1)])
            shape.append(a + f - 1)
    # sometimes the shape is larger than what the schedule covers (bounds not dividing / covering the shape)
    if rng.random() < 0.25:
        j = rng.randrange(rank)
        shape[j] = shape[j] + rng.choice([1, 2, shape[j]])
    total = 1
    for s in shape:
        total *= s
    if total > 1500:
        return None
    # extra reduction / broadcast loop that indexes only some operands
    extra = None
    if rng.random() < 0.4:
        loops.append(rng.choice([1, 2, 3, 4]))
        extra = len(loops) - 1
    nl = len(loops)
    perm = list(range(nl))
    if not keep_order:
        rng.shuffle(perm)          # new position of each loop
    pos = {old: new for new, old in enumerate(perm)}
    bounds = [0] * nl
    for old, b in enumerate(loops):
        bounds[pos[old]] = b

    def expr(terms):
        parts = []
        for li, c in terms:
            parts.append(f"d{pos[li]}" if c == 1 else f"(d{pos[li]} * {c})")
        e = parts[0]
        for p in parts[1:]:
            e = f"({e} + {p})"
        return e
    dims = ", ".join(f"d{i}" for i in range(nl))
    full = ", ".join(expr(t) for t in dim_exprs)
    operands = []
    for k in range(3):
        # operand k may be a broadcast operand that drops one dim
        if rank > 1 and rng.random() < 0.2:
            drop = rng.randrange(rank)
            keep = [d for d in range(rank) if d != drop]
            operands.append((", ".join(expr(dim_exprs[d]) for d in keep), [shape[d] for d in keep]))
        elif extra is not None and k == 0 and rng.random() < 0.5:
            # operand additionally indexed by the extra loop
            operands.append((full + f", d{pos[extra]}", shape + [loops[extra]]))
        else:
            operands.append((full, list(shape)))
    # dimensions no schedule loop touches (constant index 0): slices of higher-rank buffers
    for k in range(3):
        if rng.random() < 0.25:
            res, shp = operands[k]
            parts, shp = [x.strip() for x in _split_top(res)], list(shp)
            for _ in range(rng.choice([1, 2, 2, 3])):
                at = rng.randint(0, len(parts))
                sz = rng.choice([1, 2, 3, 4, 5])
                tot = sz
                for x in shp:
                    tot *= x
                if tot > 1500:
                    break
                parts.insert(at, "0")
                shp.insert(at, sz)
            operands[k] = (", ".join(parts), shp)
    space = '"L1"'
    explicit = rng.random() < 0.12
    offset_view = rng.choice([0, 1, 2]) if rng.random() < 0.2 else -1
    mts = []
    for k, (res, shp) in enumerate(operands):
        shp_s = "x".join(str(s) for s in shp)
        if explicit and k == 1:
            lay = ", ".join(f"[{s}] -> ({st})" for s, st in zip(shp, _rowmajor(shp)))
            mts.append(f"memref<{shp_s}x{ty}, #tsl.tsl<{lay}>, {space}>")
        elif not explicit and k == offset_view:
            # a window of a larger buffer: row-major strides and a non-zero offset (no layout of its own is asked for)
            mts.append(f"memref<{shp_s}x{ty}, strided<[{', '.join(str(x) for x in _rowmajor(shp))}], offset: {rng.choice([16, 32, 64])}>, {space}>")
        else:
            mts.append(f"memref<{shp_s}x{ty}, {space}>")
    pats = ", ".join(f"affine_map<({dims}) -> ({res})>" for res, _ in operands)
    bnds = ", ".join(f"{b} : index" for b in bounds)
    kern = "kernel.add" if acc == "snax_alu" else "kernel.mul"
    text = f"""builtin.module {{
func.func @f(%a : {mts[0]}, %b : {mts[1]}, %c : {mts[2]}) {{
  "dart.schedule"(%a, %b, %c) <{{patterns = [{pats}], accelerator = "{acc}", tiles = [[]], bounds = [{bnds}], operandSegmentSizes = array<i32: 2, 1>}}> ({{
  ^bb0(%s0 : !dart.stream<{ty}>, %s1 : !dart.stream<{ty}>, %s2 : !dart.stream<{ty}>):
    %r = "dart.generic"(%s0, %s1) <{{library_call = "{acc}"}}> ({{
    ^bb1(%x : {ty}, %y : {ty}, %z : {ty}):
      %v = {kern} %x, %y : {ty}, {ty} -> {ty}
      dart.yield %v : {ty}
    }}) : (!dart.stream<{ty}>, !dart.stream<{ty}>) -> !dart.stream<{ty}>
    dart.yield %r : !dart.stream<{ty}>
  }}) : ({mts[0]}, {mts[1]}, {mts[2]}) -> ()
  func.return
}}
}}
"""
    return text, {"acc": acc, "ty": ty, "explicit": explicit, "shapes": [s for _, s in operands]}


def _split_top(res):
    """split a comma separated list of affine result expressions at the top level"""
    out, depth, cur = [], 0, ""
    for ch in res:
        if ch == "(":
            depth += 1
        elif ch == ")":
            depth -= 1
        if ch == "," and depth == 0:
            out.append(cur)
            cur = ""
        else:
            cur += ch
    out.append(cur)
    return out


def _rowmajor(shape):
    st = []
    cur = 1
    for s in reversed(shape):
        st.insert(0, cur)
        cur *= s
    return st


def run(pid: str, tier: str, seed: int, selftest=False, replay=None) -> int:
    from xdsl.dialects.builtin import MemRefType

    from snaxc.dialects.snax import LayoutCast
    from snaxc.dialects.tsl import TiledStridedLayoutAttr
    rep = Report(pid, tier, seed)
    known = KnownFindings()
    rng = random.Random(seed)
    n = 1000 if tier == "quick" else 6000
    cases = []
    made = 0
    prev_text = None
    while made < n:
        g = gen_schedule(rng)
        if g is None:
            continue
        made += 1
        text, desc = g
        own = text
        if made % 3 == 0 and not desc["explicit"]:
            text = repo.add_companion(text, prev_text)       # one pass run over two scheduled operations; @f is judged
        prev_text = own
        try:
            src = repo.parse(text)
            src.verify()
        except Exception as e:
            raise MachineryError(f"generator produced invalid dart.schedule: {e}\n{text}")
        for tiled in ("true", "false"):
            m = src.clone()
            name = f"gen:{seed}:{made}:tiled={tiled}"
            try:
                repo.run_pipeline(m, f"set-memory-layout{{tiled={tiled}}}")
            except Exception as e:
                rep.evaluations += 1
                rep.violation(name, f"set-memory-layout{{tiled={tiled}}} raised {type(e).__name__}: {str(e)[:200]}",
                              {"source": text, "exception": traceback.format_exc(limit=6)})
                continue
            from export_ir import funcs_of
            casts = [op for op in funcs_of(m)["f"].walk() if isinstance(op, LayoutCast)]
            if desc["explicit"]:
                cases.append({"kind": "eq", "clause": "ExplicitLayoutUntouched", "name": name, "x": str(src), "y": str(m), "text": text})
                continue
            if len(casts) != 3:
                rep.evaluations += 1
                rep.violation(name, f"expected a layout for each of the 3 operands, found {len(casts)} layout casts", {"source": text, "after": str(m)})
                continue
            for k, c in enumerate(casts):
                t = c.dest.type
                assert isinstance(t, MemRefType) and isinstance(t.layout, TiledStridedLayoutAttr)
                cases.append({"kind": "chosenlayout", "name": f"{name}#op{k}", "L": export_tsl(t.layout.data), "shape": list(t.get_shape()),
                              "text": text, "layout_text": str(t.layout.data), "elem": desc["ty"]})
    rep.rule = (f"{n} generated dart.schedule ops (snax_alu / snax_gemmx templates; any loop order; tiled, sliding-window, reduction and broadcast dims; "
                "shapes not covered/divided by the schedule; i8/i16/i32/i64) x tiled=true/false through the real set-memory-layout; every layout cast's "
                "layout judged by TLC: covers the operand shape and is injective on it (Layout.tla); explicit layouts untouched; non-trivial = distinct layout+shape")
    CH = 3000
    for lo in range(0, len(cases), CH):
        chunk = cases[lo:lo + CH]
        r, verdicts = run_obj_batch(pid, chunk, tag=f"batch{lo}", coverage=(lo == 0))
        rep.add_tlc(r)
        for tid, v in verdicts.items():
            c = chunk[tid - 1]
            rep.evaluations += 1
            rep.traces += 1
            rep.nontrivial.add(c.get("layout_text", "") + str(c.get("shape")))
            if len(rep.samples) < 3 and c["kind"] == "chosenlayout":
                rep.samples.append({"layout": c["layout_text"], "shape": c["shape"], "elem": c["elem"], "source": c["text"]})
            if v != "ok":
                rep.violation(c["name"], f"clause {v} fails: layout {c.get('layout_text')} for shape {c.get('shape')} ({c.get('elem')})",
                              {"source": c["text"], "layout": c.get("layout_text"), "shape": c.get("shape"), "clause": v})
    return rep.finish(known)
