"""Pair checks: run spec/PairCheck.tla on batches of (input image, output image) cases."""
from __future__ import annotations

import json
import os

from common import WORK, MachineryError, run_tlc
from export_ir import export_with_ids


def regkeys_of(images):
    keys, accs = [], []
    for img in images:
        for op in img["ops"]:
            if op["k"] in ("setup", "launch", "await", "reset"):
                acc = op["sv"][0]
                if acc not in accs:
                    accs.append(acc)
                if op["k"] == "setup":
                    for f in op["sv"][1:]:
                        if [acc, f] not in keys:
                            keys.append([acc, f])
        for c in img.get("claims", []):
            if [c["acc"], c["f"]] not in keys:
                keys.append([c["acc"], c["f"]])
            if c["acc"] not in accs:
                accs.append(c["acc"])
    return keys or [["_", "_"]], accs or ["_"]


def image_of(fn, claims_fn=None, width_map=None):
    """Export a func.func to an image; `claims_fn(exporter, fn)` may add C07 claims."""
    img, ex = export_with_ids(fn, width_map)
    sacc = [""] * len(ex.ty)
    for v, i in ex.ids.items():
        n = getattr(v.type, "name", "")
        if n in ("accfg.state", "accfg.token"):
            sacc[i - 1] = v.type.accelerator.data
    img["sacc"] = sacc or [""]
    img["claims"] = claims_fn(ex, fn) if claims_fn else []
    img["thr"] = 1
    img["logsetup"] = 0
    img["dma"] = 0
    img["allocsite"] = 0
    img["track"] = 0
    img["memtop"] = 0
    img["srctop"] = 0
    return img


def default_argdom(fn, max_combos=400):
    """Oracle domain for a function of unknown provenance (repository corpus)."""
    from xdsl.dialects.builtin import IndexType, IntegerType

    doms = []
    for k, a in enumerate(fn.regions[0].blocks[0].args):
        t = a.type
        if isinstance(t, IntegerType) and t.width.data == 1:
            doms.append([0, 1])
        elif isinstance(t, IndexType):
            doms.append([0, 1, 2, 3])
        elif isinstance(t, IntegerType):
            doms.append([1 + k, 4 + k])
        else:
            doms.append([900001 + k])
    def prod():
        p = 1
        for d in doms:
            p *= len(d)
        return p
    while prod() > max_combos:
        j = max(range(len(doms)), key=lambda q: (len(doms[q]), q))
        if len(doms[j]) <= 1:
            break
        doms[j] = doms[j][:-1]
    return doms


def n_oracles(case):
    p = len(case["opqdom"]) * len(case.get("stdom", [[0]])) * len(case.get("descdom", [[]])) * len(case.get("coredom", [0]))
    for d in case["argdom"]:
        p *= len(d)
    return p


def oracle_at(case, oi):
    idx = oi - 1
    vals = []
    for d in case["argdom"] + [case["opqdom"], case.get("stdom", [[0]]), case.get("descdom", [[]]), case.get("coredom", [0])]:
        vals.append(d[idx % len(d)])
        idx //= len(d)
    return {"args": vals[:-4], "opq": vals[-4], "st": vals[-3], "desc": vals[-2], "core": vals[-1]}


def run_pair_batch(pid, contract, cases, tag="batch", workers=16, timeout=3000, coverage=False, extra_batch=None):
    """cases: list of dict(name, A, B, argdom, opqdom, ...).  Returns (TlcResult, {tid: [(oi, verdict, nA, nB)]})."""
    d = os.path.join(WORK, pid)
    os.makedirs(d, exist_ok=True)
    path = os.path.join(d, f"{tag}.json")
    batch_cases = []
    for c in cases:
        keys, accs = regkeys_of([c["A"], c["B"]])
        bc = {"name": c["name"], "A": c["A"], "B": c["B"], "argdom": c["argdom"], "opqdom": c["opqdom"],
              "stdom": c.get("stdom", [[0]]), "descdom": c.get("descdom", [[]]), "coredom": c.get("coredom", [0]), "regkeys": keys, "accs": accs}
        for k in c.get("extra", {}):
            bc[k] = c["extra"][k]
        batch_cases.append(bc)
    batch = {"contract": contract, "cases": batch_cases}
    if extra_batch:
        batch.update(extra_batch)
    with open(path, "w") as f:
        json.dump(batch, f)
    r = run_tlc("PairCheck", "PairCheck.cfg", env={"BATCH": path}, workers=workers, timeout=timeout, coverage=coverage)
    per: dict[int, list] = {}
    for v in r.verdicts():
        tid, oi, verdict, na, nb = v
        per.setdefault(tid, []).append((oi, verdict, na, nb))
    expected = sum(n_oracles(c) for c in cases)
    got = sum(len(v) for v in per.values())
    if r.error and not r.invariant_violated:
        raise MachineryError(f"TLC failed on {path}: {r.error}\n{r.out[-3000:]}")
    if got != expected:
        raise MachineryError(f"TLC verdict count {got} != expected {expected} on {path}\n{r.out[-2000:]}")
    return r, per


def replay_trace(pid, contract, case, oi, workers=1):
    """Re-run one case with the NoViolation invariant on, restricted to oracle oi, to get TLC's counterexample."""
    d = os.path.join(WORK, pid)
    os.makedirs(d, exist_ok=True)
    path = os.path.join(d, "replay.json")
    orc = oracle_at(case, oi)
    keys, accs = regkeys_of([case["A"], case["B"]])
    bc = {"name": case["name"], "A": case["A"], "B": case["B"], "argdom": [[v] for v in orc["args"]],
          "opqdom": [orc["opq"]], "stdom": [orc["st"]], "descdom": [orc["desc"]], "coredom": [orc["core"]], "regkeys": keys, "accs": accs}
    for k in case.get("extra", {}):
        bc[k] = case["extra"][k]
    with open(path, "w") as f:
        json.dump({"contract": contract, "cases": [bc]}, f)
    r = run_tlc("PairCheck", "PairCheck_replay.cfg", env={"BATCH": path}, workers=workers, timeout=600)
    return r
