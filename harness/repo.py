"""Loading and driving the real snax-mlir code from /repo's working tree."""
from __future__ import annotations

import os
import sys
import warnings

REPO = os.environ.get("VERIF_REPO", "/repo")
HERE = os.path.dirname(os.path.abspath(__file__))
if HERE not in sys.path:
    sys.path.insert(0, HERE)
if REPO not in sys.path:
    sys.path.insert(0, REPO)
os.environ.setdefault("SNAX_MLIR_VERIF", "1")
warnings.filterwarnings("ignore")

import xshim  # noqa: E402,F401

from xdsl.parser import Parser  # noqa: E402
from xdsl.passes import PassPipeline  # noqa: E402

from snaxc.tools.snax_opt_main import SNAXOptMain  # noqa: E402

_main = None


def opt_main() -> SNAXOptMain:
    global _main
    if _main is None:
        _main = SNAXOptMain(args=["-"])
        _main.ctx.allow_unregistered = True
    return _main


def fresh_ctx():
    """A new AccContext with all dialects/accelerators/memories registered."""
    m = SNAXOptMain(args=["-"])
    m.ctx.allow_unregistered = True
    return m.ctx


def parse(text: str, ctx=None):
    ctx = ctx or opt_main().ctx
    return Parser(ctx, text).parse_module()


def run_pipeline(mod, spec: str, ctx=None, verify: bool = True):
    """Apply the repo's passes named in `spec` (snax-opt -p syntax) in place."""
    m = opt_main()
    ctx = ctx or m.ctx
    pipe = PassPipeline.parse_spec(m.available_passes, spec)
    for p in pipe.passes:
        p.apply(ctx, mod)
        if verify:
            mod.verify()
    return mod


def run_text(text: str, spec: str, verify: bool = True):
    mod = parse(text)
    if verify:
        mod.verify()
    return run_pipeline(mod, spec, verify=verify)
