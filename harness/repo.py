"""Loading and driving the real snax-mlir code from /repo's working tree."""
from __future__ import annotations

import os
import sys
import warnings

REPO = os.environ.get("VERIF_REPO", "/repo")
HERE = os.path.dirname(os.path.abspath(__file__))
if HERE not in sys.path:
    sys.path.insert(0, HERE)
if REPO not in sys.path:
    sys.path.insert(0, REPO)
os.environ.setdefault("SNAX_MLIR_VERIF", "1")
warnings.filterwarnings("ignore")

import xshim  # noqa: E402,F401

from xdsl.parser import Parser  # noqa: E402
from xdsl.passes import PassPipeline  # noqa: E402

from snaxc.tools.snax_opt_main import SNAXOptMain  # noqa: E402

_main = None


def opt_main() -> SNAXOptMain:
    global _main
    if _main is None:
        _main = SNAXOptMain(args=["-"])
        _main.ctx.allow_unregistered = True
    return _main


def fresh_ctx():
    """A new AccContext with all dialects/accelerators/memories registered."""
    m = SNAXOptMain(args=["-"])
    m.ctx.allow_unregistered = True
    return m.ctx


def parse(text: str, ctx=None):
    ctx = ctx or opt_main().ctx
    return Parser(ctx, text).parse_module()


def run_pipeline(mod, spec: str, ctx=None, verify: bool = True):
    """Apply the repo's passes named in `spec` (snax-opt -p syntax) in place."""
    m = opt_main()
    ctx = ctx or m.ctx
    pipe = PassPipeline.parse_spec(m.available_passes, spec)
    for p in pipe.passes:
        p.apply(ctx, mod)
        if verify:
            mod.verify()
    return mod


def run_text(text: str, spec: str, verify: bool = True):
    mod = parse(text)
    if verify:
        mod.verify()
    return run_pipeline(mod, spec, verify=verify)


def add_companion(text: str, prev_text: str | None, name: str = "g") -> str:
    """One pass run over several functions: append the single function @f of `prev_text` (renamed to @<name>) to the module `text`.
    Checks keep judging @f only; what a pass remembers from one function to the next (caches, counters, shared state) now matters.
    Returns `text` unchanged when prev_text cannot be used (declarations, several functions, globals)."""
    if not prev_text:
        return text
    body = prev_text.strip()
    if body.count("func.func") != 1 or "memref.global" in body or "@f(" not in body or text.count("func.func") != 1:
        return text
    start = body.index("func.func")
    end = body.rindex("}")          # closing brace of the module
    fn = body[start:end].rstrip()
    fn = fn.replace("@f(", f"@{name}(", 1)
    t = text.rstrip()
    if not t.endswith("}"):
        return text
    return t[:-1].rstrip() + "\n  " + fn + "\n}\n"
