"""C05: the DMA lowering of memref.copy moves every element to its layout position."""
from __future__ import annotations

import itertools
import random
import traceback

import repo  # noqa: F401
from common import KnownFindings, MachineryError, Report, text_hash
from export_ir import funcs_of
from pairs import image_of, oracle_at, run_pair_batch

# element type -> byte pitch (widths that are not whole bytes are addressed with the rounded-up pitch everywhere in the compiler)
W = {"i8": 1, "i16": 2, "i32": 4, "i64": 8, "i1": 1, "i4": 1, "i12": 2}


def rowmajor(shape):
    st, cur = [], 1
    for s in reversed(shape):
        st.insert(0, cur)
        cur *= s
    return st


class Side:
    """One copy operand: type text + function giving the concrete descriptor for concrete sizes."""

    def __init__(self, rng, shape_decl, conc_sizes_fn, kind, tile_split=None):
        self.rng = rng


def gen_case(rng, force=None):
    """force="dynpad": one side has run-time strides with a padded pitch, the other a static tiled layout (a class that matters and that
    the free choices below produce only about once in a hundred cases)"""
    rank = rng.choice([1, 2, 2, 3]) if force is None else rng.choice([2, 2, 3])
    el = rng.choice(list(W))
    dims = [rng.choice([1, 2, 3, 4, 6, 8]) for _ in range(rank)]
    while _prod(dims) > 64:
        dims[rng.randrange(rank)] = rng.choice([1, 2])
    dyn = [rng.random() < 0.25 for _ in range(rank)]
    use_tsl = rng.random() < 0.5 or force == "dynpad"
    if use_tsl:
        dyn = [False] * rank     # TSL cases are static (dynamic TSL steps have no independent meaning)
    # tile split per dim (equal tile bounds on both sides)
    splits = []
    for d in dims:
        cands = [t for t in (2, 3, 4) if d % t == 0 and d // t >= 1]
        if use_tsl and cands and rng.random() < 0.6:
            t = rng.choice(cands)
            splits.append([d // t, t])
        else:
            splits.append([d])

    def tsl_layout():
        """random injective layout on the tile levels: assign steps by a random order of all levels (+ optional gaps)."""
        levels = [(i, j) for i, sp in enumerate(splits) for j in range(len(sp))]
        order = levels[:]
        rng.shuffle(order)
        steps = {}
        cur = 1
        for (i, j) in order:
            steps[(i, j)] = cur
            cur *= splits[i][j]
            if rng.random() < 0.25:
                cur += rng.choice([1, 2, 4])      # gap / padding
        off = rng.choice([0, 0, 3, 5])
        txt = ", ".join("[" + ", ".join(str(b) for b in sp) + "] -> (" + ", ".join(str(steps[(i, j)]) for j in range(len(sp))) + ")"
                        for i, sp in enumerate(splits))
        if off:
            txt += f", offset: {off}"
        L = {"dims": [[{"b": splits[i][j], "s": steps[(i, j)]} for j in range(len(sp))] for i, sp in enumerate(splits)], "off": off}
        return f", #tsl.tsl<{txt}>", (lambda sizes, strides, off_: L), False

    def plain_layout(padded_dyn_ok=False):
        r = rng.random()
        if r < 0.4 and not (padded_dyn_ok and force == "dynpad"):
            return "", (lambda sizes, strides, off_: {"dims": [[{"b": b, "s": s}] for b, s in zip(sizes, rowmajor(sizes))], "off": 0}), False
        # strided: permuted / padded strides, static or dynamic
        perm = list(range(rank))
        rng.shuffle(perm)
        pad = rng.choice([0, 0, 1, 2]) if not (padded_dyn_ok and force == "dynpad") else rng.choice([1, 2, 3])

        def conc_strides(sizes):
            st = [0] * rank
            cur = 1
            for d in reversed(perm):
                st[d] = cur
                cur *= sizes[d]
                cur += pad
            return st
        off_choices = [0, 0, 2, 7]
        dyn_meta = rng.random() < 0.35 or (padded_dyn_ok and force == "dynpad")
        if dyn_meta or any(dyn):
            # known finding (known/C05/dynamic_strides.json): dynamic strides are assumed to be those of an unpadded row-major
            # buffer; the generator therefore gives a `?` stride only that value
            # -- that class needs a dynamic stride on BOTH sides (two `?` compare equal); when the other side is a static tiled layout
            # the run-time pitch may be padded
            perm = list(range(rank))
            if not padded_dyn_ok and (dyn_meta or any(dyn[1:])):
                pad = 0          # (only a dynamic outermost size: every stride stays static, the pitch may be padded)
            # dynamic strides where they depend on dynamic sizes (or all dynamic), dynamic or static offset
            offtxt = "?" if rng.random() < 0.6 else str(rng.choice(off_choices))
            st_static = conc_strides(dims)
            sttxt = ", ".join("?" if d < rank - 1 and (dyn_meta or any(dyn[d + 1:])) else str(st_static[d]) for d in range(rank))
            txt = f", strided<[{sttxt}], offset: {offtxt}>"
            offs = [0, 3] if offtxt == "?" else [int(offtxt)]
            return txt, (lambda sizes, strides, off_: {"dims": [[{"b": b, "s": s}] for b, s in zip(sizes, strides)], "off": off_}), (conc_strides, offs)
        off = rng.choice(off_choices)
        st = conc_strides(dims)
        txt = f", strided<[{', '.join(str(x) for x in st)}], offset: {off}>"
        return txt, (lambda sizes, strides, off_: {"dims": [[{"b": b, "s": s}] for b, s in zip(sizes, st)], "off": off}), False

    sides = []
    if use_tsl and (rng.random() < 0.3 or force == "dynpad"):
        # one side with run-time (possibly padded) strides, the other a static tiled layout
        sides = [plain_layout(padded_dyn_ok=True), tsl_layout()]
        if rng.random() < 0.5:
            sides.reverse()
    else:
        for _ in range(2):
            if use_tsl and rng.random() < 0.75:
                sides.append(tsl_layout())
            else:
                sides.append(plain_layout())
    shp = "x".join("?" if dy else str(d) for d, dy in zip(dims, dyn))
    types = [f"memref<{shp}x{el}{s[0]}>" for s in sides]
    text = f"""builtin.module {{
  func.func @f(%src : {types[0]}, %dst : {types[1]}) {{
    "memref.copy"(%src, %dst) : ({types[0]}, {types[1]}) -> ()
    func.return
  }}
}}
"""
    # concrete descriptor alternatives
    size_alts = [[d] if not dy else sorted({d, rng.choice([1, 2, 3])}) for d, dy in zip(dims, dyn)]
    alts = []
    w = W[el]
    for sizes in itertools.product(*size_alts):
        sizes = list(sizes)
        per_side = []
        for (txt, mk, dynmeta) in sides:
            if dynmeta:
                conc, offs = dynmeta
                per_side.append([(conc(sizes), o) for o in offs])
            else:
                per_side.append([(rowmajor(sizes), 0)])
        for (sst, soff), (dst_, doff) in itertools.product(*per_side):
            Ls = sides[0][1](sizes, sst, soff)
            Ld = sides[1][1](sizes, dst_, doff)

            def extent(L):
                return (L["off"] + sum((lv["b"] - 1) * lv["s"] for dim in L["dims"] for lv in dim) + 1) * w
            srctop = extent(Ls) + rng.choice([0, 8])
            dbase = srctop + rng.choice([0, 16])
            memtop = dbase + extent(Ld) + 8
            alts.append(([{"valid": 1, "base": 0, "off": Ls["off"], "sizes": sizes, "strides": sst, "L": Ls},
                          {"valid": 1, "base": dbase, "off": Ld["off"], "sizes": sizes, "strides": dst_, "L": Ld}], srctop, memtop))
    return text, alts, w, {"el": el, "types": types}


def _prod(xs):
    p = 1
    for x in xs:
        p *= x
    return p


def run(pid: str, tier: str, seed: int, selftest=False, replay=None) -> int:
    import glob, json, os
    rep = Report(pid, tier, seed)
    known = KnownFindings()
    rng = random.Random(seed)
    n = 800 if tier == "quick" else 5000
    cases = []
    gens = []
    base = os.path.join(os.path.dirname(os.path.dirname(os.path.abspath(__file__))), "known", pid)
    for p in sorted(glob.glob(os.path.join(base, "*.json"))):
        wj = json.load(open(p))
        gens.append((f"witness:{pid}/{os.path.basename(p)}", (wj["text"], [tuple(a) for a in wj["alts"]], wj["w"], wj["info"])))
    for k in range(n):
        gens.append((f"gen:{seed}:{k}", gen_case(rng, force="dynpad" if k % 8 == 3 else None)))
    prev_text = None
    for gi, (name, (text, alts, w, info)) in enumerate(gens):
        # every third copy is lowered in one pass run together with the previous one (as function @g); @f is judged
        own = text
        if name.startswith("gen:") and gi % 3 == 0:
            text = repo.add_companion(text, prev_text)
        prev_text = own
        try:
            m = repo.parse(text)
            m.verify()
        except Exception as e:
            raise MachineryError(f"generator produced an invalid copy {name}: {e}\n{text}")
        try:
            repo.run_pipeline(m, "snax-copy-to-dma")
        except (NotImplementedError,) as e:
            rep.refused += 1
            continue
        except Exception as e:
            rep.evaluations += 1
            rep.violation(name, f"snax-copy-to-dma raised {type(e).__name__}: {str(e)[:200]} on {info['types']}",
                          {"source": text, "exception": traceback.format_exc(limit=8)})
            continue
        fn = funcs_of(m)["f"]
        if any(o.name == "memref.copy" for o in fn.walk()):
            rep.refused += 1     # pass left the copy alone (declared: not handled)
            continue
        img = image_of(fn)
        # all oracles of one case share memtop/srctop: take the maximum over the alternatives and re-base
        srctop = max(a[1] for a in alts)
        descdom = []
        memtop = 0
        for descs, st, mt in alts:
            d0, d1 = dict(descs[0]), dict(descs[1])
            shift = srctop - st
            d1["base"] = d1["base"] + shift
            memtop = max(memtop, mt + shift)
            descdom.append([d0, d1])
        img["dma"], img["memtop"], img["srctop"] = 1, memtop, srctop
        trivial = {"name": "f", "nv": 2, "ops": [dict(img["ops"][-1], a=[], r=[])], "args": [1, 2], "ty": ["m", "m"], "w": [0, 0],
                   "sacc": ["", ""], "claims": [], "thr": 1, "logsetup": 0, "dma": 0, "memtop": 0, "srctop": 0, "allocsite": 0, "track": 0}
        cases.append({"name": name, "A": trivial, "B": img, "argdom": [[900001], [900002]], "opqdom": [[0]], "descdom": descdom,
                      "extra": {"srcarg": 1, "dstarg": 2, "w": w}, "text": text, "after": str(fn), "types": info["types"]})
    rep.rule = (f"{n} generated memref.copy ops: rank 1-3, dims 1..8 (<= 64 elements), i8..i64, layouts none / strided (permuted, padded, static or dynamic "
                "strides and offsets) / tiled-strided with equal tile bounds (random level order, gaps, offsets), dynamic dims; the real snax-copy-to-dma "
                "output (arith/scf/dma calls) is executed on IRMachine with a byte memory for every concrete descriptor alternative; TLC checks "
                "ElementsDelivered, ReadsInsideSource, WritesInsideDestination; non-trivial = distinct type pair")
    CH = 300
    for lo in range(0, len(cases), CH):
        chunk = cases[lo:lo + CH]
        r, per = run_pair_batch(pid, "dma", chunk, tag=f"batch{lo}", coverage=(lo == 0))
        rep.add_tlc(r)
        for tid, vs in per.items():
            c = chunk[tid - 1]
            rep.evaluations += len(vs)
            rep.traces += 1
            rep.nontrivial.add(" -> ".join(c["types"]))
            if len(rep.samples) < 3:
                rep.samples.append({"types": c["types"], "lowered": c["after"][:2500], "descriptors": c["descdom"][0]})
            bad = [v for v in vs if v[1] != "ok"]
            if bad:
                oi, verdict, _, _ = sorted(bad)[0]
                d = oracle_at(c, oi)["desc"]
                rep.violation(c["name"], f"clause {verdict} fails for {c['types'][0]} -> {c['types'][1]} with sizes {d[0]['sizes']} "
                              f"src strides/off {d[0]['strides']}/{d[0]['off']} dst {d[1]['strides']}/{d[1]['off']} ({len(bad)}/{len(vs)} descriptors)",
                              {"source": c["text"], "after": c["after"], "descriptors": d, "clause": verdict})
    return rep.finish(known)
