"""C17: loop restructuring (pipeline-canonicalize-for, reuse-memref-allocs) preserves the executed
sequence of side-effecting operations with their index and size values."""
from __future__ import annotations

import glob
import os
import random
import traceback

import repo  # noqa: F401
from common import KnownFindings, MachineryError, Report, text_hash
from export_ir import funcs_of
from pairs import image_of, oracle_at, run_pair_batch


class LoopGen:
    def __init__(self, rng, dynamic_bounds=False, allocs=True):
        self.rng = rng
        self.n = 0
        self.lines = []
        self.dynamic_bounds = dynamic_bounds
        self.allocs = allocs
        self.tag = 0
        self.uses_div = False
        self.uses_cell = False

    def fresh(self, p="x"):
        self.n += 1
        return f"%{p}{self.n}"

    def emit(self, ind, s):
        self.lines.append("  " * ind + s)

    def effect(self, ind, ivs, extra):
        self.tag += 1
        ops = [self.rng.choice(ivs + extra)] if (ivs or extra) else []
        if ivs and self.rng.random() < 0.7:
            ops = list(dict.fromkeys(ops + [self.rng.choice(ivs)]))
        tys = ", ".join("index" for _ in ops)
        self.emit(ind, f'"test.op"({", ".join(ops)}) {{tag = {self.tag} : i32}} : ({tys}) -> ()')

    def pure(self, ind, ivs, extra):
        v = self.fresh()
        a = self.rng.choice(ivs + extra + ["%c1", "%c2"])
        b = self.rng.choice(ivs + extra + ["%c1", "%c3"])
        self.emit(ind, f"{v} = arith.{self.rng.choice(['addi', 'muli'])} {a}, {b} : index")
        return v

    def memops(self, ind, ivs, extra):
        """alloc / dim / subview group observed through a test.op"""
        r = self.rng.random()
        self.tag += 1
        if self.rng.random() < 0.1:
            # a size read from memory at a loop-invariant address (a parameter cell allocated in front of the loops), possibly updated by
            # the loop body: the load is an observable read and must stay where it is
            self.uses_cell = True
            v, b = self.fresh("ld"), self.fresh("buf")
            self.emit(ind, f"{v} = memref.load %cell[%c0] : memref<1xindex>")
            self.emit(ind, f"{b} = memref.alloc({v}) {{alignment = 64 : i64}} : memref<?xi8>")
            self.emit(ind, f'"test.op"({b}) {{tag = {self.tag} : i32}} : (memref<?xi8>) -> ()')
            if self.rng.random() < 0.6:
                w = self.fresh("x")
                self.emit(ind, f"{w} = arith.addi {v}, %c1 : index")
                self.emit(ind, f"memref.store {w}, %cell[%c0] : memref<1xindex>")
            return
        if self.rng.random() < 0.15:
            # a size computed by a division whose divisor is zero exactly when the code is not reached (loop bounded by the divisor, or
            # an explicit guard): the operands are defined outside the loop, but the division must not be executed speculatively
            self.uses_div = True
            q, b = self.fresh("q"), self.fresh("buf")
            guard = self.rng.random() < 0.4
            if guard:
                self.emit(ind, "scf.if %nz {")
                ind += 1
            self.emit(ind, f"{q} = arith.{self.rng.choice(['divui', 'ceildivui', 'divsi'])} {self.rng.choice(extra + ['%c4', '%c7'])}, %pn : index")
            self.emit(ind, f"{b} = memref.alloc({q}) {{alignment = 64 : i64}} : memref<?xi8>")
            self.emit(ind, f'"test.op"({b}) {{tag = {self.tag} : i32}} : (memref<?xi8>) -> ()')
            if guard:
                self.emit(ind - 1, "}")
            return
        if r < 0.35:
            # alloc with sizes from outside the loop (hoistable) or iv-dependent (not hoistable)
            sz = self.rng.choice(extra + ["%c2", "%c4"] + (ivs if self.rng.random() < 0.3 else []))
            b = self.fresh("buf")
            self.emit(ind, f"{b} = memref.alloc({sz}) {{alignment = 64 : i64}} : memref<?xi8>")
            self.emit(ind, f'"test.op"({b}) {{tag = {self.tag} : i32}} : (memref<?xi8>) -> ()')
        elif r < 0.47:
            # a subview whose size is another dimension query made inside the loop (kept there by an ordinary user); the dim of the
            # subview feeds an alloc
            j, i2 = self.rng.choice(["%c0", "%c1"]), self.rng.choice(["%c0", "%c1"])
            dj = self.fresh("d")
            self.emit(ind, f"{dj} = memref.dim %A, {j} : memref<?x?xi8>")
            self.emit(ind, f'"test.op"({dj}) {{tag = {self.tag} : i32}} : (index) -> ()')
            sizes = [dj, "4"] if i2 == "%c0" else ["4", dj]
            if self.rng.random() < 0.3:
                sizes = [dj, dj]
            shape = "x".join("?" if z.startswith("%") else z for z in sizes)
            svt = f"memref<{shape}xi8, strided<[?, 1], offset: ?>>"
            sv = self.fresh("sv")
            self.emit(ind, f"{sv} = memref.subview %A[0, 0] [{sizes[0]}, {sizes[1]}] [1, 1] : memref<?x?xi8> to {svt}")
            d = self.fresh("d")
            self.emit(ind, f"{d} = memref.dim {sv}, {i2} : {svt}")
            b = self.fresh("buf")
            self.tag += 1
            self.emit(ind, f"{b} = memref.alloc({d}) {{alignment = 64 : i64}} : memref<?xi8>")
            self.emit(ind, f'"test.op"({b}) {{tag = {self.tag} : i32}} : (memref<?xi8>) -> ()')
        elif r < 0.7:
            # dim of a subview (static/dynamic offsets and sizes in any combination) feeding an alloc
            offs = [self.rng.choice(ivs + ["%c0"]) if self.rng.random() < 0.5 else "0" for _ in range(2)]
            sizes = [self.rng.choice(extra + ["%c2"]) if self.rng.random() < 0.5 else self.rng.choice(["2", "4"]) for _ in range(2)]
            shape = "x".join("?" if z.startswith("%") else z for z in sizes)
            svt = f"memref<{shape}xi8, strided<[?, 1], offset: ?>>"
            sv = self.fresh("sv")
            self.emit(ind, f"{sv} = memref.subview %A[{offs[0]}, {offs[1]}] [{sizes[0]}, {sizes[1]}] [1, 1] : memref<?x?xi8> to {svt}")
            d = self.fresh("d")
            self.emit(ind, f"{d} = memref.dim {sv}, {self.rng.choice(['%c0', '%c1'])} : {svt}")
            b = self.fresh("buf")
            self.emit(ind, f"{b} = memref.alloc({d}) {{alignment = 64 : i64}} : memref<?xi8>")
            self.emit(ind, f'"test.op"({sv}, {b}) {{tag = {self.tag} : i32}} : ({svt}, memref<?xi8>) -> ()')
        else:
            d = self.fresh("d")
            self.emit(ind, f"{d} = memref.dim %A, {self.rng.choice(['%c0', '%c1'])} : memref<?x?xi8>")
            b = self.fresh("buf")
            self.emit(ind, f"{b} = memref.alloc({d}) {{alignment = 64 : i64}} : memref<?xi8>")
            self.emit(ind, f'"test.op"({b}) {{tag = {self.tag} : i32}} : (memref<?xi8>) -> ()')

    def bound(self, kinds):
        return self.rng.choice(kinds)

    def loop(self, ind, depth, maxdepth, ivs, extra, perfect):
        if self.dynamic_bounds and self.rng.random() < 0.35:
            lb, ub, st = self.rng.choice(["%c0", "%c1", "%n1"]), self.rng.choice(["%n0", "%c4"]), self.rng.choice(["%c1", "%c2", "%s0"])
        else:
            lb = self.rng.choice(["%c0", "%c0", "%c0", "%c1"])
            ub = self.rng.choice(["%c2", "%c3", "%c4", "%c6", "%c7"])
            st = self.rng.choice(["%c1", "%c1", "%c2", "%c3"])
        i = self.fresh("i")
        self.emit(ind, f"scf.for {i} = {lb} to {ub} step {st} {{")
        ivs2 = ivs + [i]
        inner = depth < maxdepth
        pre = 0 if perfect else self.rng.randint(0, 2)
        post = 0 if perfect else self.rng.randint(0, 2)
        for _ in range(pre):
            self.item(ind + 1, ivs2, extra, allow_pure=True)
        if inner:
            self.loop(ind + 1, depth + 1, maxdepth, ivs2, extra, perfect and self.rng.random() < 0.8)
        else:
            for _ in range(self.rng.randint(1, 2)):
                self.item(ind + 1, ivs2, extra, allow_pure=True, force_effect=True)
        for _ in range(post):
            self.item(ind + 1, ivs2, extra, allow_pure=True)
        self.emit(ind, "}")

    def item(self, ind, ivs, extra, allow_pure=True, force_effect=False):
        r = self.rng.random()
        if force_effect or r < 0.5:
            if self.allocs and self.rng.random() < 0.35:
                self.memops(ind, ivs, extra)
            else:
                self.effect(ind, ivs, extra)
        else:
            v = self.pure(ind, ivs, extra)
            self.tag += 1
            self.emit(ind, f'"test.op"({v}) {{tag = {self.tag} : i32}} : (index) -> ()')

    def program(self):
        for c in (0, 1, 2, 3, 4, 6, 7):
            self.emit(2, f"%c{c} = arith.constant {c} : index")
        extra = ["%n0", "%m0"]
        for _ in range(self.rng.randint(1, 2)):
            if self.rng.random() < 0.25:
                self.effect(2, [], extra)
            self.loop(2, 1, self.rng.choice([1, 2, 2, 3]), [], extra, perfect=self.rng.random() < 0.6)
        self.emit(2, "func.return")
        if self.uses_cell:
            self.lines[7:7] = ["    %cell = memref.alloc() : memref<1xindex>", "    memref.store %c2, %cell[%c0] : memref<1xindex>"]
        if self.uses_div:
            self.lines[7:7] = ["    %pn = arith.addi %n0, %c0 : index", "    %nz = arith.cmpi ne, %pn, %c0 : index"]
        body = "\n".join(self.lines)
        text = ("builtin.module {\n  func.func @f(%A: memref<?x?xi8>, %n0: index, %n1: index, %s0: index, %m0: index) {\n"
                + body + "\n  }\n}\n")
        used = lambda a: any((a + t) in body for t in (" ", ",", ")", "\n", "]"))
        argdom = [[900001], [0, 1, 3, 5] if used("%n0") else [3], [0, 1, 2] if used("%n1") else [0],
                  [1, 2, 3] if used("%s0") else [1], [2, 5] if used("%m0") else [2]]
        return text, argdom


LOOPKINDS = {1: ("%c0", "%c3", "%c1"), 2: ("%c2", "%c4", "%c1"), 3: ("%c1", "%c8", "%c3"), 4: ("%c0", "%n", "%c1"), 5: ("%c0", "%c4", "%c2")}


def render_nest(tokens):
    lines, ivs, depth, tag, nl = [], [], 0, 0, 0
    uses_n = False
    for t in tokens:
        p = "  " * (2 + depth)
        if t.startswith("F"):
            lb, ub, st = LOOPKINDS[int(t[1:])]
            uses_n = uses_n or ub == "%n"
            nl += 1
            lines.append(f"{p}scf.for %i{nl} = {lb} to {ub} step {st} {{")
            ivs.append(f"%i{nl}")
            depth += 1
        elif t == ")":
            depth -= 1
            ivs.pop()
            lines.append("  " * (2 + depth) + "}")
        else:
            tag += 1
            ops = ivs if t == "L1" else []
            lines.append(f'{p}"test.op"({", ".join(ops)}) {{tag = {tag} : i32}} : ({", ".join("index" for _ in ops)}) -> ()')
    consts = "\n".join(f"    %c{c} = arith.constant {c} : index" for c in (0, 1, 2, 3, 4, 8))
    text = "builtin.module {\n  func.func @f(%n : index) {\n" + consts + "\n" + "\n".join(lines) + "\n    func.return\n  }\n}\n"
    return text, [[0, 1, 2, 5] if uses_n else [1]]


def witness_sources(pid):
    out = []
    base = os.path.join(os.path.dirname(os.path.dirname(os.path.abspath(__file__))), "known", pid)
    for p in sorted(glob.glob(os.path.join(base, "*.mlir"))):
        out.append((f"witness:{pid}/{os.path.basename(p)}", open(p).read(), None))
    return out


def corpus_sources():
    import re
    out = []
    for fn, _ in (("pipeline/pipeline-canonicalize-for.mlir", 0), ("reuse-memref-allocs.mlir", 0)):
        p = os.path.join(repo.REPO, "tests/filecheck/transforms", fn)
        if not os.path.exists(p):
            continue
        for k, ch in enumerate(re.split(r"^// -----.*$", open(p).read(), flags=re.M)):
            src = "\n".join(line for line in ch.splitlines() if not line.strip().startswith("//"))
            if src.strip():
                out.append((f"corpus:{fn}#{k}", src, None))
    return out


PIPES = ["pipeline-canonicalize-for", "reuse-memref-allocs", "reuse-memref-allocs,pipeline-canonicalize-for"]


def run(pid: str, tier: str, seed: int, selftest=False, replay=None) -> int:
    from pairs import default_argdom
    rep = Report(pid, tier, seed)
    known = KnownFindings()
    n_gen = {"quick": 300, "thorough": 4000}[tier]
    sources = witness_sources(pid) + corpus_sources()
    for k in range(n_gen):
        rng = random.Random(seed * 104729 + k)
        g = LoopGen(rng, dynamic_bounds=(k % 3 == 0), allocs=(k % 2 == 0))
        text, argdom = g.program()
        sources.append((f"gen:{seed}:{k}", text, argdom))
    # systematic: the dimension of a subview feeds an allocation inside a loop - every combination of static / run-time offsets and sizes
    # and both dimension indices (which run-time operand of the subview is the size that memref.dim returns?)
    for o0 in ("0", "%c1", "%i"):
        for o1 in ("0", "%c1"):
            for s0 in ("2", "%n0", "%m0"):
                for s1 in ("4", "%m0"):
                    for idx in ("%c0", "%c1"):
                        shape = "x".join("?" if z.startswith("%") else z for z in (s0, s1))
                        svt = f"memref<{shape}xi8, strided<[?, 1], offset: ?>>"
                        text = f"""builtin.module {{
  func.func @f(%A: memref<?x?xi8>, %n0: index, %n1: index, %s0: index, %m0: index) {{
    %c0 = arith.constant 0 : index
    %c1 = arith.constant 1 : index
    %c3 = arith.constant 3 : index
    scf.for %i = %c0 to %c3 step %c1 {{
      %sv = memref.subview %A[{o0}, {o1}] [{s0}, {s1}] [1, 1] : memref<?x?xi8> to {svt}
      %d = memref.dim %sv, {idx} : {svt}
      %b = memref.alloc(%d) {{alignment = 64 : i64}} : memref<?xi8>
      "test.op"(%sv, %b) {{tag = 1 : i32}} : ({svt}, memref<?xi8>) -> ()
    }}
    func.return
  }}
}}
"""
                        sources.append((f"svdim:{o0},{o1}|{s0},{s1}|{idx}", text, [[900001], [3, 5], [0], [1], [2, 5]]))
    # exhaustive small scope (spec/SeqGen.tla): every loop nest skeleton of <= 4 (thorough: 5) nodes, depth <= 3, over 5 loop kinds
    # (constant / run-time bounds, lb != 0, ub not a multiple of the step, zero-trip) and 2 effect leaves
    from gen_seq import tlc_sequences
    rg, seqs = tlc_sequences(pid, 2, 4 if tier == "quick" else 5, 3, False, nf=5)
    rep.add_tlc(rg)
    rep.extra["small_scope_programs"] = len(seqs)
    for toks in seqs:
        text, argdom = render_nest(toks)
        sources.append(("small:" + " ".join(toks), text, argdom))
    cases = []
    for name, text, argdom in sources:
        try:
            src = repo.parse(text)
            src.verify()
        except Exception as e:
            if name.startswith("gen:") or name.startswith("small:"):
                raise MachineryError(f"generator produced invalid input {name}: {e}\n{text}")
            rep.skipped += 1
            continue
        for pipe in PIPES:
            m = src.clone()
            try:
                repo.run_pipeline(m, pipe)
            except Exception as e:
                rep.evaluations += 1
                rep.violation(f"{name}|{pipe}", f"{pipe} raised {type(e).__name__}: {str(e)[:200]}",
                              {"source": text, "pipeline": pipe, "exception": traceback.format_exc(limit=8)})
                continue
            fa, fb = funcs_of(src), funcs_of(m)
            for fname in fa:
                if fname not in fb:
                    continue
                ia, ib = image_of(fa[fname]), image_of(fb[fname])
                if str(fa[fname]) == str(fb[fname]):
                    rep.extra["unchanged_by_pass"] = rep.extra.get("unchanged_by_pass", 0) + 1
                ad = argdom if argdom is not None else default_argdom(fa[fname], 64)
                cases.append({"name": f"{name}|{pipe}@{fname}", "A": ia, "B": ib, "argdom": ad, "opqdom": [[0]],
                              "text": text, "b_text": str(fb[fname]), "pipe": pipe})
    rep.rule = (f"witnesses + repository inputs + {n_gen} generated loop nests (depth<=3, const/dynamic bounds and steps, ub not multiple of step, "
                "lb != 0, imperfect nests, allocs/dims/subviews, sizes from divisions that are only reached with a non-zero divisor) x 3 pipelines of the real passes; TLC runs input and output for all oracles "
                "(dynamic bounds incl. zero-trip); contract SameEffects; non-trivial = >=1 side-effect event and the pass changed the IR")
    CH = 500
    for lo in range(0, len(cases), CH):
        chunk = cases[lo:lo + CH]
        r, per = run_pair_batch(pid, "effects", chunk, tag=f"batch{lo}", coverage=(lo == 0))
        rep.add_tlc(r)
        for tid, vs in per.items():
            c = chunk[tid - 1]
            rep.evaluations += len(vs)
            if all(v[1].startswith("skipA") for v in vs):
                rep.skipped += 1
                rep.extra.setdefault("skip_reasons", {})
                rep.extra["skip_reasons"][vs[0][1]] = rep.extra["skip_reasons"].get(vs[0][1], 0) + 1
                continue
            rep.traces += 1
            if any(v[2] > 1 for v in vs):
                rep.nontrivial.add(text_hash(c["text"] + c["pipe"]))
            if len(rep.samples) < 3 and c["name"].startswith("gen:"):
                rep.samples.append({"case": c["name"], "source": c["text"], "after": c["b_text"], "oracles": len(vs)})
            bad = [v for v in vs if v[1] != "ok" and not v[1].startswith("skipA")]
            if bad:
                oi, verdict, na, nb = sorted(bad)[0]
                rep.violation(c["name"], f"{c['pipe']}: clause {verdict} fails for oracle {oracle_at(c, oi)} ({len(bad)}/{len(vs)} oracles; "
                              f"{na} source events vs {nb})",
                              {"source": c["text"], "pipeline": c["pipe"], "after": c["b_text"], "oracle": oracle_at(c, oi), "clause": verdict})
    return rep.finish(known)
