"""C01 (dedup), C06 (overlap), C07 (state tracing): one generator, three contracts."""
from __future__ import annotations

import glob
import os
import re
import traceback

import repo  # noqa: F401  (loads shim + /repo)
from common import KnownFindings, MachineryError, Report, text_hash
from export_ir import funcs_of
from gen_accfg import generate
from pairs import default_argdom, image_of, n_oracles, oracle_at, replay_trace, run_pair_batch

STAGES = {
    "C07": ("untraced", "traced", "trace", "accfg-trace-states"),
    "C01": ("traced", "dedup", "dedup", "accfg-dedup"),
    "C06": ("dedup", "overlap", "overlap", "accfg-config-overlap"),
}


def claims_of(ex, fn):
    """What the real infer_state_of claims for every state-typed SSA value (syntactic export)."""
    from snaxc.inference.trace_acc_state import infer_state_of

    out = []
    for v, i in ex.ids.items():
        if getattr(v.type, "name", "") == "accfg.state":
            try:
                st = infer_state_of(v)
            except ValueError:
                continue
            for f, x in st.items():
                if x in ex.ids:
                    out.append({"s": i, "acc": v.type.accelerator.data, "f": f, "x": ex.ids[x]})
    return out


class PassTimeout(BaseException):
    pass


def _alarm(sig, frm):
    raise PassTimeout()


PASS_TIMEOUT_S = 20


def stale_threading(mod, rng):
    """Perturb a traced module: make some setups' in_state stale (an earlier state of the same
    accelerator in the same block) or drop it -- 'pre-existing partially threaded state'."""
    from snaxc.dialects import accfg
    n = 0
    for op in list(mod.walk()):
        if isinstance(op, accfg.SetupOp) and op.in_state is None and rng.random() < 0.6:
            earlier = []
            prev = op.prev_op
            while prev is not None:
                if isinstance(prev, accfg.SetupOp) and prev.accelerator == op.accelerator and prev.out_state is not op.in_state:
                    earlier.append(prev.out_state)
                prev = prev.prev_op
            if earlier:
                new = accfg.SetupOp(op.values, op.param_names, op.accelerator, rng.choice(earlier))
                n += 1
            else:
                continue
            blk = op.parent_block()
            blk.insert_op_before(new, op)
            op.out_state.replace_all_uses_with(new.out_state)
            blk.erase_op(op)
    return n


def compile_stages(text: str, prethread_rng=None):
    """Returns dict stage -> module (or exception) for untraced/traced/dedup/overlap."""
    st = {}
    try:
        u = repo.parse(text)
        u.verify()
    except Exception as e:  # generator/corpus input not valid under this xDSL: not a case
        return {"input_error": e}
    if prethread_rng is not None:
        try:
            stale_threading(u, prethread_rng)
            u.verify()
        except Exception as e:
            return {"input_error": e}
    st["untraced"] = u
    prev = u
    import signal
    # CPU time of this process, not wall-clock time: a machine that is merely busy must never turn a terminating pass into a violation
    signal.signal(signal.SIGVTALRM, _alarm)
    for name, spec in (("traced", "accfg-trace-states"), ("dedup", "accfg-dedup"), ("overlap", "accfg-config-overlap")):
        m = prev.clone()
        try:
            signal.setitimer(signal.ITIMER_VIRTUAL, PASS_TIMEOUT_S)
            repo.run_pipeline(m, spec)
            signal.setitimer(signal.ITIMER_VIRTUAL, 0)
        except PassTimeout:
            st[name] = RuntimeError(f"{spec} did not terminate within {PASS_TIMEOUT_S} s of CPU time")
            st[name + "_tb"] = ""
            break
        except Exception as e:
            signal.setitimer(signal.ITIMER_VIRTUAL, 0)
            st[name] = e
            st[name + "_tb"] = traceback.format_exc(limit=6)
            break
        st[name] = m
        prev = m
    return st


def corpus_texts():
    """Functions of the repository's own accfg test inputs (split on // -----)."""
    out = []
    base = os.path.join(repo.REPO, "tests/filecheck/transforms")
    for fn in ("acc-dedup.mlir", "accfg-config-overlap.mlir", "accfg-trace-states.mlir"):
        p = os.path.join(base, fn)
        if not os.path.exists(p):
            continue
        text = open(p).read()
        chunks = re.split(r"^// -----.*$", text, flags=re.M)
        for k, ch in enumerate(chunks):
            src = "\n".join(line for line in ch.splitlines() if not line.strip().startswith("//"))
            if src.strip():
                out.append((f"corpus:{fn}#{k}", src))
    return out


def witness_texts(pid):
    out = []
    for d in (pid,) + (("C01",) if pid == "C07" else ()):
        for p in sorted(glob.glob(os.path.join(os.path.dirname(os.path.dirname(os.path.abspath(__file__))), "known", d, "*.mlir"))):
            out.append((f"witness:{d}/{os.path.basename(p)}", open(p).read()))
    return out


def build_cases(pid, sources, rep: Report):
    """sources: list of (name, text, argdom|None, opqdom|None)."""
    a_stage, b_stage, contract, passname = STAGES[pid]
    cases = []
    import random
    for name, text, argdom, opqdom in sources:
        pre = random.Random(name) if (pid == "C07" and name.startswith("gen:") and name.endswith(":pre")) else None
        st = compile_stages(text, pre)
        if "input_error" in st:
            rep.skipped += 1
            continue
        a, b = st.get(a_stage), st.get(b_stage)
        if a is None or isinstance(a, Exception):
            rep.skipped += 1  # an earlier pass failed: reported by that pass's property
            continue
        if isinstance(b, Exception):
            rep.evaluations += 1
            rep.violation(f"{name}", f"{passname} raised {type(b).__name__}: {str(b)[:200]}",
                          {"source": text, "pipeline": passname, "exception": st.get(b_stage + "_tb", "")})
            continue
        fa, fb = funcs_of(a), funcs_of(b)
        for fname in fa:
            if fname not in fb:
                continue
            try:
                ia = image_of(fa[fname])
                if pid == "C07":
                    ia["thr"] = 0  # the input of state tracing may be (stale-)threaded; tracing must repair it
                ib = image_of(fb[fname], claims_of if pid == "C07" else None)
            except Exception as e:
                raise MachineryError(f"export failed for {name}/{fname}: {e}\n{traceback.format_exc()}")
            if not any(op["k"] in ("setup", "launch") for op in ia["ops"]):
                continue
            ad = argdom if argdom is not None and fname == "f" else default_argdom(fa[fname])
            od = opqdom if opqdom is not None and fname == "f" else [[0, 1], [1, 0]]
            cases.append({"name": f"{name}@{fname}", "A": ia, "B": ib, "argdom": ad, "opqdom": od,
                          "text": text, "b_text": str(fb[fname])})
    return cases


def one_setup_per_nest(toks):
    depth, count = 0, 0
    for t in toks:
        if t == "F":
            if depth == 0:
                count = 0
            depth += 1
        elif t == "X":
            depth += 1 if depth > 0 else 0
        elif t == ")":
            depth -= 1 if depth > 0 else 0
        elif t.startswith("I") and depth > 0:
            count += 1
            if count > 1:
                return False
    return True


def run(pid: str, tier: str, seed: int, selftest=False, replay=None) -> int:
    rep = Report(pid, tier, seed)
    known = KnownFindings()
    n_gen = {"quick": 250, "thorough": 3000}[tier]
    a_stage, b_stage, contract, passname = STAGES[pid]
    sources = []
    if True:   # (--replay re-runs the whole check with the recorded seed and reports only that case: check.py / common.Report.finish)
        for name, text in witness_texts(pid):
            sources.append((name, text, None, None))
        for name, text in corpus_texts():
            sources.append((name, text, None, None))
        # exhaustive small scope: every program skeleton TLC enumerates from spec/ProgGen.tla
        from gen_small import render, tlc_programs
        rg, progs = tlc_programs(pid, 3, 3 if tier == "quick" else 4, 2)
        rep.add_tlc(rg)
        # deeper structures without calls: every nesting of <= 5 invocations / loops / conditionals over two value choices (21 058 programs);
        # the quick tier takes a seeded uniform sample of them, the thorough tier all
        rg2, deep = tlc_programs(pid, 2, 5, 2, withcalls=False)
        rep.add_tlc(rg2)
        deep = [t for t in deep if sum(1 for x in t if x not in (")", "E")) > 3]
        if tier == "quick":
            import itertools
            import random as _r
            # all of the family the statement is about - a loop whose body is a conditional, every choice of 0-2 invocations before the
            # loop, in the then-arm and in the else-arm and 0-1 after the loop (1 029 programs) - plus a seeded uniform sample of the rest
            leafseqs = [()] + [(a,) for a in ("I1", "I2")] + [(a, b) for a in ("I1", "I2") for b in ("I1", "I2")]
            family = {pre + ("F", "X") + th + ("E",) + el + (")", ")") + post
                      for pre, th, el in itertools.product(leafseqs, repeat=3) for post in leafseqs[:3]}
            deep = sorted(family) + _r.Random(seed * 9176 + 5).sample([t for t in deep if t not in family], 400)
        # two accelerators: one configured only around a region (loop / conditional, every body of the enumerated small scope incl. calls),
        # the other one inside it - what is known about the outer one after the region depends on what the body does to BOTH
        def single_region(t):
            if t[0] not in ("F", "X") or t[-1] != ")":
                return False
            d = 0
            for j, x in enumerate(t):
                d += 1 if x in ("F", "X") else -1 if x == ")" else 0
                if d == 0 and j < len(t) - 1:
                    return False
            return True
        small3 = [t for t in progs if sum(1 for x in t if x not in (")", "E")) <= 3 and single_region(t)]
        sandwiches = [("J1",) + tuple(t) + (post,) for t in small3 for post in ("J1", "J2")]
        rep.extra["two_accelerator_sandwiches"] = len(sandwiches)
        # one accelerator configured before, inside and after a region whose body contains a call (the call-free ones are part of the
        # 5-node enumeration): what the later setup may rely on depends on what each arm / the loop body leaves behind
        around = [("I1",) + tuple(t) + (post,) for t in small3 if "C" in t or "S" in t for post in ("I1", "I2")]
        rep.extra["configured_around_regions_with_calls"] = len(around)
        # two loops next to each other, each re-configuring the accelerator from the same outer values (what a pass keeps from rotating /
        # hoisting the first loop meets the second one in the same function)
        bodies = [("I1",), ("I2",), ("I3",)]
        twoloops = [pre + ("F",) + a + (")", "F") + b + (")",) + post for pre in ((), ("I1",)) for a in bodies for b in bodies for post in ((), ("I2",))]
        # a configuration inside a two-deep nest that depends on BOTH loop variables (moved / copied once per loop level)
        nests = [pre + ("F", "F") + body + (")",) + mid + (")",) + post for pre in ((), ("I1",)) for body in (("I5",), ("I3",))
                 for mid in ((), ("S",)) for post in ((), ("I2",))]
        # two accelerators at two loop levels, the inner configuration computed from both loop variables (the outer one is an input of
        # the outer configuration too)
        nests += [pre + ("F", a, "F", b, ")", ")") + post for pre in ((), ("I1",)) for a, b in (("I3", "J5"), ("J3", "I5"), ("I3", "J3"))
                  for post in ((), ("J1",))]
        if pid == "C06":
            # ... and computed from both loop variables by operations of the inner body (the outer variable's cast is an input operation of
            # the outer configuration and a value from outside for the inner one)
            nests += [pre + ("F", a, "F", b, ")", ")") + post for pre in ((), ("I1",)) for a, b in (("I3", "J6"), ("J3", "I6"))
                      for post in ((), ("J1",))]
        progs = list(progs) + deep + sandwiches + around + twoloops + nests
        n_small = 0
        for toks in progs:
            if pid == "C06" and not one_setup_per_nest(toks):
                continue     # known finding C06 (loop rotation): at most one setup per accelerator per outermost loop nest
            text, argdom, opq = render(toks)
            sources.append(("small:" + " ".join(toks), text, argdom, opq))
            n_small += 1
        rep.extra["small_scope_programs"] = n_small
        for k in range(n_gen):
            kw = {}
            if pid == "C06":
                # known finding (loop rotation in NESTED loops): either at most one setup per accelerator per outermost loop nest, or loops
                # that are never nested (then any number of setups and launches per loop body)
                kw = dict(chains=True, carried=True, one_setup_per_loop_nest=True, n_accs=2) if k % 2 else dict(chains=True, carried=True, flat_loops=True, n_accs=2)
            if k % 3 == 0:
                kw["early_inputs"] = True      # partially overlapped code: inputs of the next configuration computed between launch and await
            text, argdom, opq = generate(seed, k, **kw)
            sources.append((f"gen:{seed}:{k}", text, argdom, opq))
            if pid == "C07" and k % 2 == 0:
                sources.append((f"gen:{seed}:{k}:pre", text, argdom, opq))
    cases = build_cases(pid, sources, rep)
    rep.rule = (f"programs = witnesses + repository accfg corpus + every skeleton of <= {3 if tier == 'quick' else 4} nodes enumerated by TLC (ProgGen.tla) + "
                f"{n_gen} generated (gen_accfg, seed {seed}); each case is "
                f"(image before {passname}, image after the real {passname}); TLC enumerates every oracle (arg values, trip counts, "
                "branch outcomes, opaque results) of the case; non-trivial = case with >= 1 launch event in machine A")
    CH = 400
    for lo in range(0, len(cases), CH):
        chunk = cases[lo:lo + CH]
        r, per = run_pair_batch(pid, contract, chunk, tag=f"batch{lo}", coverage=(lo == 0))
        rep.add_tlc(r)
        for tid, vs in per.items():
            c = chunk[tid - 1]
            rep.evaluations += len(vs)
            bad = [v for v in vs if v[1] != "ok" and not v[1].startswith("skipA")]
            skipped = [v for v in vs if v[1].startswith("skipA")]
            if skipped and len(skipped) == len(vs):
                rep.skipped += 1
                rep.extra.setdefault("skip_reasons", {})
                rep.extra["skip_reasons"][skipped[0][1]] = rep.extra["skip_reasons"].get(skipped[0][1], 0) + 1
                continue
            rep.traces += 1
            if any(v[2] > 0 for v in vs):
                rep.nontrivial.add(text_hash(c["text"] + c["name"].split("@")[-1]))
            if len(rep.samples) < 3:
                rep.samples.append({"case": c["name"], "source": c["text"], "after_" + passname: c["b_text"],
                                    "oracles": len(vs), "first_oracle": oracle_at(c, vs[0][0])})
            if bad:
                oi, verdict, na, nb = sorted(bad)[0]
                key = c["name"] if not c["name"].startswith("gen:") else c["name"]
                rep.violation(key, f"{passname}: clause {verdict} fails for oracle {oracle_at(c, oi)} "
                              f"({len(bad)}/{len(vs)} oracles fail)",
                              {"source": c["text"], "pipeline": passname, "after": c["b_text"], "oracle": oracle_at(c, oi),
                               "argdom": c["argdom"], "opqdom": c["opqdom"], "clause": verdict})
    if pid == "C07":
        # what is assumed must also survive the pass that ends state chains (its walk over uses through control flow is part of the state
        # inference code): after the real accfg-insert-resets every launch still observes what it observed before - a reset gives the
        # registers up, so a reset placed in the middle of a chain that later setups still build on shows as a lost field
        # (input classes outside the three observations recorded under known/E01, see DESIGN.md section 10)
        from checks_extra import resets_cases
        rcases = resets_cases(rep, seed, 120 if tier == "quick" else 2000, allpaths=False, prefix="resets")
        for lo in range(0, len(rcases), 400):
            chunk = rcases[lo:lo + 400]
            r, per = run_pair_batch(pid, "resets", chunk, tag=f"resets{lo}")
            rep.add_tlc(r)
            for tid, vs in per.items():
                c = chunk[tid - 1]
                rep.evaluations += len(vs)
                rep.traces += 1
                bad = [v for v in vs if v[1] != "ok" and not v[1].startswith("skipA")]
                if bad:
                    oi, verdict, _, _ = sorted(bad)[0]
                    rep.violation(c["name"], f"accfg-insert-resets: clause {verdict} fails for oracle {oracle_at(c, oi)} ({len(bad)}/{len(vs)} oracles)",
                                  {"source": c["text"], "after": c["after"], "clause": verdict})
    return rep.finish(known)
