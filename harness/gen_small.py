"""Exhaustive small-scope accfg programs: TLC (spec/ProgGen.tla) enumerates every well-formed skeleton up to a size, this module
renders each one to MLIR in the form gen_accfg uses (same function signature, same oracle domains)."""
from __future__ import annotations

import os
import re

from common import SPEC, WORK, MachineryError, run_tlc

ACC = "snax_alu"
FIELDS = ["a", "b"]
ACC_B = "acc_b"
FIELDS_B = ["p", "q"]
# value choices of an invocation: they share values field-wise so that deduplication has something to remove and something to keep
# OIV: the enclosing loop's variable; choice 6 computes both values from both loop variables (input operations inside the inner body)
CHOICES = {1: ("%v0", "%v1"), 2: ("%v0", "%v2"), 3: ("IV", "%v1"), 4: ("%v2", "IV"), 5: ("IV", "OIV"), 6: ("IV*OIV", "IV+OIV")}


def tlc_programs(pid, nv, maxnodes, maxdepth, withcalls=True):
    d = os.path.join(WORK, pid)
    os.makedirs(d, exist_ok=True)
    cfg = os.path.join(SPEC, f".ProgGen_{pid}.cfg")
    with open(cfg, "w") as f:
        f.write(f"SPECIFICATION Spec\nCONSTANTS\n  NV = {nv}\n  MaxNodes = {maxnodes}\n  MaxDepth = {maxdepth}\n  WithCalls = {1 if withcalls else 0}\nINVARIANT Emit\nCHECK_DEADLOCK FALSE\n")
    try:
        r = run_tlc("ProgGen", os.path.basename(cfg), workers=4, timeout=900)
    finally:
        os.remove(cfg)
    progs = []
    for mm in re.finditer(r'<<\s*"PROGRAM",\s*<<([^>]*)>>\s*>>', r.out):
        progs.append(re.findall(r'"([^"]+)"', mm.group(1)))
    if r.error or not progs:
        raise MachineryError(f"ProgGen produced no programs: {r.error}\n{r.out[-1500:]}")
    return r, sorted(set(tuple(p) for p in progs))


def render(tokens, acc=ACC, fields=FIELDS, launch=()):
    """-> (text, argdom, opqdom).  acc / fields / launch: accelerator name, the two setup fields used and the names of its launch values"""
    ACC, FIELDS = acc, list(fields)      # noqa: N806 (shadow the module defaults)

    def launch_text(tk, s):
        if not launch:
            return f'{tk} = "accfg.launch"({s}) <{{param_names = [], accelerator = "{ACC}"}}> : (!accfg.state<"{ACC}">) -> !accfg.token<"{ACC}">'
        names = ", ".join(f'"{x}"' for x in launch)
        tys = ", ".join(["i32"] * len(launch) + [f'!accfg.state<"{ACC}">'])
        return f'{tk} = "accfg.launch"({", ".join(["%v0"] * len(launch) + [s])}) <{{param_names = [{names}], accelerator = "{ACC}"}}> : ({tys}) -> !accfg.token<"{ACC}">'
    lines = []
    n = [0]
    used_ext = set()
    scopes = [[]]          # per open block: state values defined in it, in order
    ivs = []               # i32 casts of the enclosing induction variables
    kinds = []             # open constructs

    def fresh(p):
        n[0] += 1
        return f"%{p}{n[0]}"

    def emit(s):
        lines.append("  " * (2 + len(kinds)) + s)
    # loops whose body reconfigures the accelerator (an invocation or an effectful call anywhere inside): a state defined before such a
    # loop is the current one only on the first iteration, so it cannot be launched again from inside that loop
    dirty, opened = {}, []
    for i, t in enumerate(tokens):
        if t == "F":
            opened.append(i)
            dirty[i] = False
        elif t in ("X",):
            opened.append(None)
        elif t == ")":
            opened.pop()
        elif t.startswith("I") or t.startswith("J") or t == "C":
            for o in opened:
                if o is not None:
                    dirty[o] = True
    open_loops = []        # (token index, nesting level at which the loop was opened)
    used = set()
    last = [None, 0]       # the most recent state and the nesting level it was defined at; None once it is no longer the current state
    def computed(vals):
        out = []
        for v in vals:
            if v in ("IV*OIV", "IV+OIV"):
                a, b = (ivs[-1] if ivs else "%v2"), (ivs[-2] if len(ivs) > 1 else "%v2")
                x = fresh("x")
                emit(f"{x} = arith.{'muli' if '*' in v else 'addi'} {a}, {b} : i32")
                used.update([a, b])
                out.append(x)
            else:
                out.append(v)
        return out
    for ti, t in enumerate(tokens):
        if t.startswith("I"):
            vals = [(ivs[-1] if ivs else "%v2") if v == "IV" else (ivs[-2] if len(ivs) > 1 else "%v2") if v == "OIV" else v for v in CHOICES[int(t[1:])]]
            vals = computed(vals)
            used.update(vals)
            s, tk = fresh("s"), fresh("t")
            args = ", ".join(f'"{f}" = {v} : i32' for f, v in zip(FIELDS, vals))
            emit(f'{s} = accfg.setup "{ACC}" to ({args}) : !accfg.state<"{ACC}">')
            emit(launch_text(tk, s))
            emit(f'"accfg.await"({tk}) : (!accfg.token<"{ACC}">) -> ()')
            scopes[-1].append(s)
            last[0], last[1] = s, len(kinds)
        elif t.startswith("J"):
            # an invocation on a second accelerator (its own state chain; calls with effects clobber both)
            vals = [(ivs[-1] if ivs else "%v2") if v == "IV" else (ivs[-2] if len(ivs) > 1 else "%v2") if v == "OIV" else v for v in CHOICES[int(t[1:])]]
            vals = computed(vals)
            used.update(vals)
            s, tk = fresh("u"), fresh("w")
            args = ", ".join(f'"{f}" = {v} : i32' for f, v in zip(FIELDS_B, vals))
            emit(f'{s} = accfg.setup "{ACC_B}" to ({args}) : !accfg.state<"{ACC_B}">')
            emit(f'{tk} = "accfg.launch"({s}) <{{param_names = [], accelerator = "{ACC_B}"}}> : (!accfg.state<"{ACC_B}">) -> !accfg.token<"{ACC_B}">')
            emit(f'"accfg.await"({tk}) : (!accfg.token<"{ACC_B}">) -> ()')
        elif t == "F":
            i = fresh("i")
            emit(f"scf.for {i} = %c0 to %n0 step %c1 {{")
            open_loops.append((ti, len(kinds)))
            kinds.append("F")
            scopes.append([])
            ic = fresh("ic")
            emit(f"{ic} = arith.index_cast {i} : index to i32")
            ivs.append(ic)
            used.add("%n0")
        elif t == "X":
            c = "%b0" if "X" not in kinds and "XE" not in kinds else "%b1"
            used.add(c)
            emit(f"scf.if {c} {{")
            kinds.append("X")
            scopes.append([])
        elif t == "E":
            if last[0] is not None and last[1] >= len(kinds):
                last[0] = None
            kinds[-1] = "XE"
            scopes[-1] = []
            lines.append("  " * (1 + len(kinds)) + "} else {")
        elif t == ")":
            if last[0] is not None and last[1] >= len(kinds):
                last[0] = None
            k = kinds.pop()
            scopes.pop()
            if k == "F":
                ivs.pop()
                open_loops.pop()
            emit("}")
        elif t == "C":
            emit("func.call @ext() : () -> ()")
            used_ext.add("ext")
            last[0] = None     # the accelerator may have been reconfigured: launching the old state again is not a program of the lowering's form
        elif t == "S":
            emit("func.call @ext_safe() {accfg.effects = #accfg.effects<none>} : () -> ()")
            used_ext.add("ext_safe")
        elif t == "R":
            if last[0] is not None and not any(dirty[fi] for fi, lvl in open_loops if lvl >= last[1]):
                vis = [last[0]]
                tk = fresh("t")
                used.add("%b1")
                emit("scf.if %b1 {")
                emit("  " + launch_text(tk, vis[-1]))
                emit(f'  "accfg.await"({tk}) : (!accfg.token<"{ACC}">) -> ()')
                emit("}")
        else:
            raise MachineryError(f"unknown token {t}")
    body = "\n".join(["    %c0 = arith.constant 0 : index", "    %c1 = arith.constant 1 : index"] + lines + ["    func.return"])
    decls = "".join(f"  func.func private @{e}() -> ()\n" for e in sorted(used_ext))
    text = ("builtin.module {\n" + decls + "  func.func @f(%v0: i32, %v1: i32, %v2: i32, %n0: index, %n1: index, %b0: i1, %b1: i1) {\n" + body + "\n  }\n}\n")
    argdom = [[11], [12], [13], [0, 1, 2] if "%n0" in used else [1], [0], [0, 1] if "%b0" in used else [0], [0, 1] if "%b1" in used else [0]]
    return text, argdom, [[0]]
