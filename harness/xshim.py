"""Import shim: lets /repo's dialect definitions (written for a newer xDSL) load under
the installed xDSL 0.70.  It changes no pass logic: op definitions that write
`irdl_options = [...]` (a list) are given the tuple xDSL 0.70 expects.  Must be imported
before any `snaxc` module.  Trusted base of every check (listed in evidence)."""
import xdsl.irdl.operations as _ops

_orig = _ops.OpDef.from_pyrdl


def _patched(pyrdl_def):
    for k in pyrdl_def.mro():
        v = k.__dict__.get("irdl_options")
        if isinstance(v, list):
            setattr(k, "irdl_options", tuple(v))
    return _orig(pyrdl_def)


_ops.OpDef.from_pyrdl = staticmethod(_patched)
