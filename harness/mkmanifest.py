"""Regenerates MANIFEST.json from the table below (run by hand after adding a check)."""
import json, os
VERIF = os.path.dirname(os.path.dirname(os.path.abspath(__file__)))
CHECKS = {
 "C01": dict(design="5/C01", technique="TLA+ IRMachine+Accfg spec; TLC runs dedup input/output images from the real pass for all oracles (translation validation by model checking)",
   text="TLC executes the image of each program before and after the real accfg-dedup on the SNAX abstract machine (spec/IRMachine.tla, Accfg.tla) for every run-time input in the case's domain (all trip counts 0..3, both branch outcomes, opaque results) and judges contract AccfgObs (spec/Contracts.tla): same launch/await/opaque events, every field the original had written holds the same value at every launch, no use-before-def. Programs: repository accfg corpus + witnesses + generated programs of the lowering's form.",
   note="Bounded: generated programs (depth<=3, <=6 invocations) and the stated oracle domains; semantics of setup/launch/effects as in spec/Accfg.tla; xshim import shim."),
 "C04": dict(design="5/C04", technique="TLA+ IRMachine+Csr spec; TLC runs accfg image and the real CSR/RoCC lowering's image for all oracles and matches the CSR log against the declared register maps (MatchCsr)",
   text="TLC executes each accfg program (after the real trace/dedup/overlap) and its real convert-accfg-to-csr output; the lowered run's log of csrw/csrr/.insn events must be exactly what spec/Csr.tla derives from the source run's setup/launch/await events and the register maps declared in the program's accfg.accelerator ops (one write per field in listed order to the declared address, launch writes, >=1 poll of the declared barrier + HWPE clear write, RoCC instruction sets with the values in effect); NoStateLeft on the output image. Polling loops are executed (scf.while) with busy/idle status answers from the oracle.",
   note="Program part over the 4 registered accelerators; register-map injectivity over configurations is checked with C08's enumeration (map part). RoCC programs are straight-line (known finding: partner recovery across control flow)."),
 "C06": dict(design="5/C06", technique="TLA+ IRMachine+Accfg spec; TLC runs overlap input/output images from the real pass for all oracles",
   text="Same machine and contract as C01 applied to (accfg-dedup output, real accfg-config-overlap output); definedness is tracked per dynamic scope so a moved computation that reads a value not yet available in its iteration is a UseBeforeDef fault. Known finding: loop rotation clobbers fields that dedup'ed later setups rely on (witness known/C06); generator emits at most one setup per accelerator per outermost loop nest to stay outside that class.",
   note="Bounded as C01; carve-out of the known-finding class documented in known_findings.json."),
 "C07": dict(design="5/C07", technique="TLA+ IRMachine+Accfg spec; claims exported from the real infer_state_of checked as state invariant ClaimHolds/Threaded by TLC on every reached state",
   text="TLC runs the real accfg-trace-states output; whenever a state-typed SSA value becomes defined (every loop iteration, both branches, after zero-trip loops) the dictionary the real infer_state_of returns for it must be true of the machine's register file (ClaimHolds), every setup/launch must name the state that really precedes it (Threaded), and tracing must not change events. Inputs include stale/partial pre-existing threading and calls with/without effects annotation at any depth.",
   note="Bounded as C01. Claims about ids never defined in a run are vacuous (cannot be used)."),
 "C17": dict(design="5/C17", technique="TLA+ IRMachine spec; TLC runs loop nests before/after the real loop-restructuring passes for all oracles; contract SameEffects",
   text="TLC executes each loop nest and the output of the real pipeline-canonicalize-for / reuse-memref-allocs (3 pipelines) for every oracle (dynamic bounds/steps incl. zero-trip) and requires the same sequence of side-effecting operations with the same evaluated index/size operands; memrefs are observed as interned descriptors (alloc type+sizes, subview offsets/sizes/strides).",
   note="Bounded: generated nests depth<=3; affine.min tile sizes are not interpreted (cases skipped, counted)."),
 "C10": dict(design="5/C10", technique="TLA+ Layout/Affine spec as the single meaning of a TSL; every view exported from the real code compared by TLC on every index of the box",
   text="For each layout (exhaustive small space + random up to rank 4, depth 3, offsets, unit bounds, repeated steps, dynamic entries) the harness exports what the real code says - get_affine_map tree, all_values, self_overlaps, is_dense, canonicalize (twice), print->parse, from_strides, largest_common_contiguous_block - and TLC (ObjCheck.tla) compares each with Layout.tla's Addr on every index of the layout's box.",
   note="Offset-free address function is what the views share (offset is carried by text/canonicalize/from_strides and checked there); bound/step op generation and subview pointer arithmetic are exercised through C05/C11 instead."),
 "C03": dict(design="5/C03", technique="TLA+ Schedule spec: exhaustive TLC design check of Rotate/Tile/AddDim/DropUnit (IterSpacePreserved), TLC-simulated behaviours replayed on real Schedule objects, real scheduler_backtrack traces validated step by step against the spec",
   text="Schedule.tla defines the elementary transformations and the iteration multiset IterBag. (1) MC_Schedule.cfg: TLC explores all action sequences from all small schedules (668k states) - the definitions preserve IterBag. (2) spec->code: TLC -simulate behaviours (history variable printed as JSON) are replayed on the real Schedule API and the projected state compared after every behaviour. (3) code->spec: every schedule yielded by the real scheduler_backtrack is recorded as a trace of rotate/tile steps (wrapped methods) and TLC validates each step as the spec action (incl. the Tile divisibility guard) and IterBag(final) = IterBag(input).",
   note="Boxes <= 128 points (templates are small stand-ins of the 8x8x8 array with identical patterns)."),
 "C16": dict(design="5/C16", technique="TLA+ Template spec (row-space equality by exact integer elimination, Fits, constraint predicates) evaluated by TLC on every schedule yielded by the real scheduler and on matcher inputs",
   text="On every schedule the real scheduler_backtrack yields (all results): Fits(template, schedule) (same index subspace per operand on the innermost dims, bounds within template bounds) and the requested constraints (pure output stationary, memory flexibility) as Template.tla defines them; plus TemplatePattern.matches(sp) <=> PatMatches (row-space equality) on random integer patterns.",
   note="The real matcher is floating-point SVD (tol 1e-10); equivalence is claimed for integer entries in -2..3."),
 "C09": dict(design="5/C09", technique="TLA+ Layout spec (Injective, shape coverage) evaluated by TLC on every layout the real set-memory-layout pass chooses",
   text="Generated dart.schedule ops (snax_alu/snax_gemmx; any loop order; tiled, sliding-window, reduction, broadcast dims; shapes only partly covered by the schedule; i8..i64) are pushed through the real set-memory-layout in both modes; TLC (ObjCheck.tla ChosenLayout) enumerates the whole operand box of every chosen layout: per-dimension bound products equal the shape and Addr is injective; operands with an explicit layout must leave the IR untouched.",
   note="Operand boxes <= 1500 elements."),
 "C02": dict(design="5/C02", technique="TLA+ Streamer spec (hardware address generator) and Schedule+Layout spec run in lock step by TLC on the stride patterns emitted by the real scheduling/layout-resolution/stream-lowering passes",
   text="Generated dart.operations (snax_alu, snax_gemmx matmul) with layouts none / strided+offset / transposed / given 2- and 3-level TSL (with offsets) / compiler-chosen are pushed through the real dart-scheduler, (set-memory-layout), dart-layout-resolution, convert-dart-to-snax-stream. For every operand TLC compares, for every temporal step, the byte set the streamer touches (odometer over ub/ts, ports over ss, 8-byte words, base pointer offset read from the IR) with the byte set of the elements the schedule assigns to that step under the operand's layout (StepCount, StepBytes). Disabled parked streams and zero-pointer streams are not operands and are skipped; declared refusals are counted.",
   note="Matmul sizes 8..32, boxes <= 36 tiles; streams synthesised for streamers without an operand are only required to be disabled or fed from the zero pointer."),
 "C08": dict(design="5/C08", technique="TLA+ CsrLayout spec derives the expected register file from field-name meaning; the ops emitted by the real convert_to_acc_ops are executed on IRMachine by TLC and compared field by field",
   text="For random and default streamer configurations (1-5 streamers, 1-6 temporal dims with n/i/r flags, 1-2 spatial dims, every option subset) on the alu-style accelerator, gemmx array sizes m/n/k with mac/qmac kernels (i32 output, zero-pointer C operand), the gemmx rescale-only kernel, snax_hwpe_mult and xDMA: the real convert_to_acc_ops output (constants, casts, and/shift/or packing) is run on IRMachine; the values feeding accfg.setup must be exactly one per declared field, in declared order, equal to CsrLayout.tla's expectation built from the names (pointers, padded bounds/strides with Reuse collapse, masks, transpose/broadcast flags, subtractions word, K*N*M = stream steps).",
   note="Stride patterns use distinct prime markers; 32-bit words beyond 2^30 (packed csr0/shift words with the top byte set) are uninterpreted on the machine and only checked for presence; known finding: hwpe_mult field names."),
 "C05": dict(design="5/C05", technique="TLA+ IRMachine with byte memory and the DMA engine of snax_rt.h; TLC executes the code emitted by the real snax-copy-to-dma for every run-time descriptor and checks delivery and footprints against Layout.tla",
   text="Generated memref.copy ops (rank 1-3, <=64 elements, i8..i64; layouts none / strided permuted-padded static-dynamic with offsets / tiled-strided with equal tile bounds, random level order, gaps, offsets; dynamic dims) are lowered by the real snax-copy-to-dma; the emitted arith/scf/memref-metadata code and snax_dma_1d/2d_transfer calls are executed on IRMachine over a tagged byte memory for every concrete descriptor alternative (dynamic sizes, strides, offsets); at termination every logical element must sit at the destination layout's address (ElementsDelivered) and all transfers stay inside the source / destination footprints.",
   note="Known finding: dynamic strides assumed contiguous (witness known/C05); dynamic TSL steps are not generated."),
 "C14": dict(design="5/C14", technique="TLA+ IRMachine spec with a core-id intrinsic; TLC runs the original function and the real dispatch-regions output once per core id and compares the core's log with the original log filtered by the statement's rule",
   text="Generated functions (memref.copy, linalg.generic, dart.operation on snax_alu and on snax_xdma with an extension kernel, barriers, all-core ops; nested scf.for/scf.if; adjacent and separated) x core counts from {2,3,4,5}: for every core id c (snax_cluster_core_idx = c) and every trip count / branch outcome, the log of the dispatched program must equal the original log filtered by 'data movement -> core N-1, compute -> core 0, everything else -> all cores' in the original order; the same for every clone produced by function-constant-pinning from the emitted pin_to_constants attribute.",
   note="Single-block functions (the machine interprets structured control flow only); xDMA extension kernel table read from the extensions' declarations."),
 "C13": dict(design="5/C13", technique="TLA+ Cluster interleaving model (exhaustive, small traces) linking race/deadlock freedom under all interleavings to a trace condition; that condition evaluated by TLC on the sequential runs of the real insert-sync-barrier output for all trip counts; per-core runs of the dispatched program for barrier participation",
   text="(1) Cluster.tla: for all traces up to length 3 (4 in thorough) over dm/compute/all-core ops and barriers, TLC explores every interleaving of the two cores with non-atomic operations: if every single-core op is separated by a barrier from each later conflicting op of another class (TraceOK) then no conflicting ops are ever in flight together and no schedule deadlocks (negative control: without TraceOK a race is found). (2) TLC runs the real insert-sync-barrier output on IRMachine for every trip count and evaluates TraceOK on the event log with buffer aliasing through views (contract Barriers; also: only barriers were inserted). (3) The real dispatch-regions output is run once per core: every core executes the same barrier sequence (no core-specific barrier => no deadlock).",
   note="Known findings (3 witnesses): the pass is a linear walk, dependencies across control-flow boundaries are not protected on every path; generated programs are straight-line or loops with loop-local buffers."),
}
NA_REASON = "check not built yet in this round (planned: see DESIGN.md section 5); will be claimed once its TLA+ module and binding exist"
def main():
    props = [json.loads(l)["id"] for l in open(os.path.join(VERIF, "properties.jsonl"))]
    checks = []
    for pid in props:
        if pid in CHECKS:
            c = CHECKS[pid]
            checks.append({
                "property_id": pid,
                "quick_cmd": f"bin/check {pid} --tier quick",
                "thorough_cmd": f"bin/check {pid} --tier thorough",
                "evidence_file": f"evidence/{pid}.json",
                "replay_cmd_template": f"bin/check {pid} --replay {{path}}",
                "engine": "tlc",
                "level_claimed": {"category": c.get("level", "model_checking"), "text": c["text"], "design_ref": c["design"]},
                "level_note": c["note"],
                "technique": c["technique"],
            })
    man = {
        "version": 1,
        "setup_cmd": "bin/setup",
        "hooks": {"guard": "SNAX_MLIR_VERIF", "enable": "no source hooks: checks import /repo's working tree with harness/xshim.py and observe pass boundaries / public return values; SNAX_MLIR_VERIF=1 is exported by the harness but read by nothing in /repo",
                  "baseline_off_cmd": "cd /repo && /venv/bin/python -m pytest -ra -q -p no:cacheprovider --timeout=900 --continue-on-collection-errors",
                  "source_commits": [], "add_only": True},
        "engines": [{"name": "tlc", "path": "spec/", "serves_properties": [c["property_id"] for c in checks],
                     "kind_free_text": "TLC 1.8 on the TLA+ SNAX abstract machine (spec/*.tla); harness/ exports images/traces from the real code and replays spec behaviours into it"}],
        "checks": checks,
        "not_applicable": [{"property_id": p, "reason": NA_REASON} for p in props if p not in CHECKS],
        "notes": "See DESIGN.md. Known findings: known_findings.json. Seeded changes used to test the checks: seeded/.",
    }
    json.dump(man, open(os.path.join(VERIF, "MANIFEST.json"), "w"), indent=1)
if __name__ == "__main__":
    main()
