"""C15: the software-pipelined, double-buffered loop equals the original sequential loop."""
from __future__ import annotations

import glob
import os
import random
import traceback

import repo  # noqa: F401
from checks_dispatch import ID, xdma_kernel_table
from common import KnownFindings, MachineryError, Report, text_hash
from export_ir import funcs_of
from pairs import image_of, oracle_at, run_pair_batch

TILE = "memref<1x8xi32, strided<[8, 1], offset: ?>>"
BUF = "memref<1x8xi32>"
ID2 = "affine_map<(d0, d1) -> (d0, d1)>"


def gen_loop(rng, lbs=(0,), steps=(1,), min_trips_stages=True):
    nstages = rng.choice([2, 3, 3, 4])
    lb = rng.choice(lbs)
    step = rng.choice(steps)
    dyn_ub = rng.random() < 0.4
    trips = rng.choice([0, 1, 2, 3, 4, 5, 6])
    if min_trips_stages:
        trips = max(trips, nstages - 1)
    ub_val = lb + trips * step
    lines = []
    tag = [0]

    def emit(ind, s):
        lines.append("  " * ind + s)

    def t():
        tag[0] += 1
        return tag[0]
    nbuf = nstages - 1
    two_loads = nstages >= 3 and rng.random() < 0.4
    two_stores = rng.random() < 0.1
    # a bypass / residual operand: loaded in stage 0, read again only in the LAST stage (two or three stages later): two parity-selected
    # copies do not cover that distance, the loop has to be refused or given enough copies
    bypass = nstages >= 3 and rng.random() < 0.15
    pre = [f"    %buf{j} = memref.alloc() : {BUF}" for j in range(nbuf)]
    if two_loads:
        pre.append(f"    %bufx = memref.alloc() : {BUF}")
    if bypass:
        pre.append(f"    %bufy = memref.alloc() : {BUF}")
    emit(2, f"scf.for %i = %lb to %ub step %st {{")
    # index computations: the tile index is the induction variable itself, or is computed from it (flattened 2-D traversal with
    # row = i / K, col = i % K; input tile re-used every K iterations)
    idx_in = idx_out = "%i"
    mode = rng.random()
    if mode < 0.35:
        K = rng.choice([2, 3, 4])
        emit(3, f"%cK = arith.constant {K} : index")
        emit(3, "%col = arith.remui %i, %cK : index")
        if rng.random() < 0.6:
            emit(3, "%row = arith.divui %i, %cK : index")
            emit(3, "%rowK = arith.muli %row, %cK : index")
            emit(3, "%flat = arith.addi %rowK, %col : index")
            idx_in = idx_out = "%flat"
            if rng.random() < 0.3:
                idx_in = "%col"
        else:
            idx_in = "%col"
    # the constant that is the loop's lower bound may have other users (CSE leaves one %c0 per function): the column offset of the tiles
    # and a second, ordinary loop after the pipelined one
    col = "%lb" if (lb == 0 and rng.random() < 0.4) else "0"
    emit(3, f"%in = memref.subview %A[{idx_in}, {col}] [1, 8] [1, 1] : memref<16x8xi32> to {TILE}")
    emit(3, f"%out = memref.subview %B[{idx_out}, {col}] [1, 8] [1, 1] : memref<16x8xi32> to {TILE}")
    # stage 0: load; middle stages: compute or move; last stage: store
    if two_loads:
        emit(3, f"%in2 = memref.subview %C[%i, 0] [1, 8] [1, 1] : memref<16x8xi32> to {TILE}")
    if two_stores and not bypass:
        emit(3, f"%out2 = memref.subview %D[%i, 0] [1, 8] [1, 1] : memref<16x8xi32> to {TILE}")
    if bypass:
        emit(3, f"%in3 = memref.subview %D[%i, 0] [1, 8] [1, 1] : memref<16x8xi32> to {TILE}")
    emit(3, f'"memref.copy"(%in, %buf0) {{tag = {t()} : i32}} : ({TILE}, {BUF}) -> ()')
    if two_loads:
        emit(3, f'"memref.copy"(%in2, %bufx) {{tag = {t()} : i32}} : ({TILE}, {BUF}) -> ()')
    if bypass:
        emit(3, f'"memref.copy"(%in3, %bufy) {{tag = {t()} : i32}} : ({TILE}, {BUF}) -> ()')
    emit(3, '"snax.cluster_sync_op"() : () -> ()')
    for j in range(1, nstages - 1):
        if j == 1 and two_loads:
            emit(3, f'linalg.generic {{indexing_maps = [{ID2}, {ID2}, {ID2}], iterator_types = ["parallel", "parallel"]}} ins(%buf0, %bufx : {BUF}, {BUF}) outs(%buf1 : {BUF}) attrs = {{tag = {t()} : i32}} {{')
            emit(3, "^bb0(%x : i32, %y : i32, %z : i32):")
            emit(4, "linalg.yield %x : i32")
            emit(3, "}")
        elif rng.random() < 0.7:
            emit(3, f'linalg.generic {{indexing_maps = [{ID2}, {ID2}], iterator_types = ["parallel", "parallel"]}} ins(%buf{j - 1} : {BUF}) outs(%buf{j} : {BUF}) attrs = {{tag = {t()} : i32}} {{')
            emit(3, "^bb0(%x : i32, %y : i32):")
            emit(4, "linalg.yield %x : i32")
            emit(3, "}")
        else:
            emit(3, f'"memref.copy"(%buf{j - 1}, %buf{j}) {{tag = {t()} : i32}} : ({BUF}, {BUF}) -> ()')
        emit(3, '"snax.cluster_sync_op"() : () -> ()')
    last = nstages - 2
    if bypass:
        emit(3, f'linalg.generic {{indexing_maps = [{ID2}, {ID2}, {ID2}], iterator_types = ["parallel", "parallel"]}} ins(%buf{last}, %bufy : {BUF}, {BUF}) outs(%out : {TILE}) attrs = {{tag = {t()} : i32}} {{')
        emit(3, "^bb0(%x : i32, %y : i32, %z : i32):")
        emit(4, "linalg.yield %x : i32")
        emit(3, "}")
    elif rng.random() < 0.5:
        emit(3, f'"memref.copy"(%buf{last}, %out) {{tag = {t()} : i32}} : ({BUF}, {TILE}) -> ()')
    else:
        emit(3, f'linalg.generic {{indexing_maps = [{ID2}, {ID2}], iterator_types = ["parallel", "parallel"]}} ins(%buf{last} : {BUF}) outs(%out : {TILE}) attrs = {{tag = {t()} : i32}} {{')
        emit(3, "^bb0(%x : i32, %y : i32):")
        emit(4, "linalg.yield %x : i32")
        emit(3, "}")
    if two_stores and not bypass:
        emit(3, f'"memref.copy"(%buf{last}, %out2) {{tag = {t()} : i32}} : ({BUF}, {TILE}) -> ()')
    if rng.random() < 0.6:
        emit(3, '"snax.cluster_sync_op"() : () -> ()')      # (the barrier after the last stage may be left to the next iteration's first one)
    emit(2, "}")
    post = []
    if lb == 0 and step == 1 and rng.random() < 0.25:
        post += ["    %two = arith.constant 2 : index", "    scf.for %j = %lb to %two step %st {",
                 f"      %pa = memref.subview %A[%j, 0] [1, 8] [1, 1] : memref<16x8xi32> to {TILE}",
                 f"      %pd = memref.subview %D[%j, 0] [1, 8] [1, 1] : memref<16x8xi32> to {TILE}",
                 f'      "memref.copy"(%pa, %pd) {{tag = 77 : i32}} : ({TILE}, {TILE}) -> ()', "    }"]
    if rng.random() < 0.3:
        post.append(f'    "test.op"(%buf{nbuf - 1}) {{tag = 99 : i32}} : ({BUF}) -> ()')
    ubdef = "" if dyn_ub else f"    %ub = arith.constant {ub_val} : index\n"
    sig = "%A : memref<16x8xi32>, %B : memref<16x8xi32>, %C : memref<16x8xi32>, %D : memref<16x8xi32>" + (", %ub : index" if dyn_ub else "")
    text = ("builtin.module {\n  func.func public @f(" + sig + ") {\n" + f"    %lb = arith.constant {lb} : index\n{ubdef}    %st = arith.constant {step} : index\n"
            + "\n".join(pre) + "\n" + "\n".join(lines) + "\n" + "\n".join(post) + ("\n" if post else "") + "    func.return\n  }\n}\n")
    if dyn_ub:
        lo = (nstages - 1) if min_trips_stages else 0
        ubs = sorted({lb + k * step for k in range(lo, 7)})
        ubs = [u for u in ubs if u <= 15][:5]
        argdom = [[900001], [900002], [900003], [900004], ubs]
    else:
        argdom = [[900001], [900002], [900003], [900004]]
    return text, argdom, {"stages": nstages, "lb": lb, "step": step, "trips": "dyn" if dyn_ub else trips}


def run(pid: str, tier: str, seed: int, selftest=False, replay=None) -> int:
    rep = Report(pid, tier, seed)
    known = KnownFindings()
    n = 400 if tier == "quick" else 3000
    xk = xdma_kernel_table()
    witnesses = KnownFindings().witnesses(pid)
    unsafe_known = True if os.environ.get("C15_FORCE_SAFE") else any(w.get("carve") == "lb0_step1_trips" for w in witnesses)
    sources = []
    base = os.path.join(os.path.dirname(os.path.dirname(os.path.abspath(__file__))), "known", pid)
    for p in sorted(glob.glob(os.path.join(base, "*.mlir"))):
        wt = open(p).read()
        sources.append((f"witness:{pid}/{os.path.basename(p)}", wt, [[900001], [900002], [900003], [900004]][:wt.split("{")[1].count("memref<16x8xi32>")] + ([[0, 1, 2, 5]] if "%ub : index" in wt else []), {}))
    for k in range(n):
        rng = random.Random(seed * 49979687 + k)
        # dynamic upper bounds are >= nb_stages-1 (known finding known/C15/dynamic_short_trip.mlir); a few loops with lb != 0 or step != 1
        # or short constant trip counts check that such loops are left alone (or handled correctly)
        if k % 6 == 0:
            text, argdom, info = gen_loop(rng, lbs=(0, 1, 2), steps=(1, 2), min_trips_stages=True)
        elif k % 6 == 1:
            text, argdom, info = gen_loop(rng, min_trips_stages=False)
            if info["trips"] == "dyn":
                text, argdom, info = gen_loop(rng)
        else:
            text, argdom, info = gen_loop(rng)
        sources.append((f"gen:{seed}:{k}", text, argdom, info))
    cases = []
    prev_text = None
    for si, (name, text, argdom, info) in enumerate(sources):
        own = text
        if name.startswith("gen:") and si % 3 == 0:
            text = repo.add_companion(text, prev_text)       # one pass run over two loops in two functions; @f is judged
        prev_text = own
        try:
            src = repo.parse(text)
            src.verify()
        except Exception as e:
            raise MachineryError(f"invalid input {name}: {e}\n{text}")
        m = src.clone()
        try:
            repo.run_pipeline(m, "construct-pipeline,pipeline-duplicate-buffers,unroll-pipeline")
        except NotImplementedError:
            rep.refused += 1
            continue
        except Exception as e:
            rep.evaluations += 1
            rep.violation(name, f"pipeline passes raised {type(e).__name__}: {str(e)[:200]}", {"source": text, "exception": traceback.format_exc(limit=8)})
            continue
        if "pipeline." in str(m):
            raise MachineryError(f"pipeline ops left after unrolling in {name}")
        if str(funcs_of(m)["f"]) == str(funcs_of(src)["f"]):
            rep.refused += 1   # shape not recognised
            continue
        ia, ib = image_of(funcs_of(src)["f"]), image_of(funcs_of(m)["f"])
        for im in (ia, ib):
            im["allocsite"], im["track"] = 1, 1
        cases.append({"name": name, "A": ia, "B": ib, "argdom": argdom, "opqdom": [[0]], "extra": {"xk": xk}, "text": text,
                      "after": str(funcs_of(m)["f"]), "info": info})
    rep.rule = (f"witnesses + {n} generated loops of the recognised shape (subview index computations, 2-4 barrier-separated stages of copies / "
                "generics through scratch buffers, constant and dynamic trip counts) through the real construct-pipeline, pipeline-duplicate-buffers, "
                "unroll-pipeline; TLC runs the sequential loop and the pipelined code with symbolic buffer contents: every stage of every iteration "
                "exactly once reading the same terms (per stage, in order), equal final contents of all argument buffers, and the trace condition that "
                "Cluster.tla shows to imply race freedom under every interleaving; non-trivial = distinct loop")
    CH = 200
    for lo in range(0, len(cases), CH):
        chunk = cases[lo:lo + CH]
        r, per = run_pair_batch(pid, "pipeline", chunk, tag=f"batch{lo}", coverage=(lo == 0))
        rep.add_tlc(r)
        for tid, vs in per.items():
            c = chunk[tid - 1]
            rep.evaluations += len(vs)
            if all(v[1].startswith("skipA") for v in vs):
                rep.skipped += 1
                rep.extra.setdefault("skip_reasons", {})
                rep.extra["skip_reasons"][vs[0][1]] = rep.extra["skip_reasons"].get(vs[0][1], 0) + 1
                continue
            rep.traces += 1
            rep.nontrivial.add(text_hash(c["text"]))
            if len(rep.samples) < 2:
                rep.samples.append({"case": c["name"], "info": c["info"], "source": c["text"], "after": c["after"][:4000]})
            bad = [v for v in vs if v[1] != "ok" and not v[1].startswith("skipA")]
            if bad:
                oi, verdict, na, nb = sorted(bad)[0]
                o = oracle_at(c, oi)
                rep.violation(c["name"], f"clause {verdict} fails for {c['info']} inputs {o['args'][4:]} ({len(bad)}/{len(vs)} oracles)",
                              {"source": c["text"], "after": c["after"], "oracle": o, "clause": verdict})
    return rep.finish(known)
