"""Exhaustive small-scope operation sequences: TLC (spec/SeqGen.tla) enumerates every well-formed token sequence up to a size;
the renderers below give the leaves their meaning for the barrier (C13) and dispatch (C14) checks."""
from __future__ import annotations

import os
import re

from common import SPEC, WORK, MachineryError, run_tlc

T = "memref<16xi32>"
ID = "affine_map<(d0) -> (d0)>"


def tlc_sequences(pid, nl, maxnodes, maxdepth, withif, nf=1):
    d = os.path.join(WORK, pid)
    os.makedirs(d, exist_ok=True)
    cfg = os.path.join(SPEC, f".SeqGen_{pid}.cfg")
    with open(cfg, "w") as f:
        f.write(f"SPECIFICATION Spec\nCONSTANTS\n  NL = {nl}\n  NF = {nf}\n  MaxNodes = {maxnodes}\n  MaxDepth = {maxdepth}\n  WithIf = {1 if withif else 0}\n"
                "INVARIANT Emit\nCHECK_DEADLOCK FALSE\n")
    try:
        r = run_tlc("SeqGen", os.path.basename(cfg), workers=4, timeout=900)
    finally:
        os.remove(cfg)
    seqs = [tuple(re.findall(r'"([^"]+)"', mm.group(1))) for mm in re.finditer(r'<<\s*"SEQUENCE",\s*<<([^>]*)>>\s*>>', r.out)]
    if r.error or not seqs:
        raise MachineryError(f"SeqGen produced no sequences: {r.error}\n{r.out[-1500:]}")
    return r, sorted(set(seqs))


def _generic(ind, x, y, z, tag):
    p = "  " * ind
    return [f'{p}linalg.generic {{indexing_maps = [{ID}, {ID}, {ID}], iterator_types = ["parallel"]}} ins({x}, {y} : {T}, {T}) outs({z} : {T}) attrs = {{tag = {tag} : i32}} {{',
            f"{p}^bb0(%x : i32, %y : i32, %z : i32):", f"{p}  %m = arith.muli %x, %y : i32", f"{p}  linalg.yield %m : i32", f"{p}}}"]


# leaves of the barrier / dispatch programs over buffers A, B, C
LEAVES = [("copy", "A", "B"), ("copy", "B", "A"), ("gen", "A", "A", "B"), ("gen", "B", "B", "A"), ("gen", "A", "B", "C"),
          ("read", "A"), ("read", "B"), ("barrier",)]


def render_ops(tokens, local_loop_buffers):
    """-> (text, body, uses_n, uses_p).  local_loop_buffers: buffers used inside a loop are allocations local to that loop nest
    (the input class of C13 outside its known findings)."""
    lines, pre = [], []
    depth, tag, nloop = 0, 0, 0
    names = {"A": "%a", "B": "%b", "C": "%c"}
    stack = []
    uses_n = uses_p = False
    for t in tokens:
        ind = 2 + depth
        p = "  " * ind
        if t.startswith("L"):
            leaf = LEAVES[int(t[1:]) - 1]
            tag += 1
            nm = names if not (local_loop_buffers and stack and "F" in [s[0] for s in stack]) else stack[[s[0] for s in stack].index("F")][1]
            nm = nm or names
            if leaf[0] == "copy":
                lines.append(f'{p}"memref.copy"({nm[leaf[1]]}, {nm[leaf[2]]}) {{tag = {tag} : i32}} : ({T}, {T}) -> ()')
            elif leaf[0] == "gen":
                lines += _generic(ind, nm[leaf[1]], nm[leaf[2]], nm[leaf[3]], tag)
            elif leaf[0] == "read":
                lines.append(f'{p}"test.op"({nm[leaf[1]]}) {{tag = {tag} : i32}} : ({T}) -> ()')
            else:
                lines.append(f'{p}"snax.cluster_sync_op"() : () -> ()')
        elif t.startswith("F"):
            nloop += 1
            loc = names
            if local_loop_buffers and not any(s[0] == "F" for s in stack):
                loc = {k: f"%lp{nloop}_{k}" for k in "ABC"}
                pre += [f"    {v} = memref.alloc() : {T}" for v in loc.values()]
            ub = "%c1" if t == "F2" else "%n"        # loop kind 2: a constant single-trip loop (what tiling leaves for an untiled dimension)
            lines.append(f"{p}scf.for %i{nloop} = %c0 to {ub} step %c1 {{")
            uses_n = uses_n or ub == "%n"
            stack.append(("F", loc if not any(s[0] == "F" for s in stack) else stack[[s[0] for s in stack].index("F")][1]))
            depth += 1
        elif t == "X":
            lines.append(f"{p}scf.if %p {{")
            uses_p = True
            stack.append(("X", None))
            depth += 1
        elif t == "E":
            lines.append("  " * (ind - 1) + "} else {")
        elif t == ")":
            stack.pop()
            depth -= 1
            lines.append("  " * (ind - 1) + "}")
    body = "\n".join(pre + ["    %c0 = arith.constant 0 : index", "    %c1 = arith.constant 1 : index"] + lines + ["    func.return"])
    text = ("builtin.module {\n  func.func public @f(%a : " + T + ", %b : " + T + ", %c : " + T + ", %n : index, %p : i1) {\n" + body + "\n  }\n}\n")
    return text, body, uses_n, uses_p
