"""Shared machinery of the checks: TLC runner, verdict parsing, evidence, violations,
known findings.  Exit codes: 0 held, 1 violation (VIOLATION line printed), 2 machinery."""
from __future__ import annotations

import hashlib
import json
import os
import re
import shutil
import subprocess
import sys
import time

VERIF = os.path.dirname(os.path.dirname(os.path.abspath(__file__)))
SPEC = os.path.join(VERIF, "spec")
WORK = os.path.join(VERIF, ".work")
TLA_JAR = "/opt/veriftools/tla/tla2tools.jar"
COMMUNITY = "/opt/veriftools/tla/CommunityModules-deps.jar"


class MachineryError(Exception):
    pass


REPLAY_KEY = None   # set by check.py --replay: Report.finish then reports only this case and leaves evidence untouched
REPLAY_PATH = None


def seed_from_env(default=0) -> int:
    try:
        return int(os.environ.get("VERIF_SEED", default))
    except ValueError:
        return default


def workdir(pid: str) -> str:
    d = os.path.join(WORK, pid)
    shutil.rmtree(d, ignore_errors=True)
    os.makedirs(d, exist_ok=True)
    return d


def _java_cp():
    cps = [TLA_JAR]
    d = os.path.dirname(TLA_JAR)
    for f in sorted(os.listdir(d)):
        if f.endswith(".jar") and f != os.path.basename(TLA_JAR):
            cps.append(os.path.join(d, f))
    return ":".join(cps)


class TlcResult:
    def __init__(self, out: str, rc: int, wall: float, cmd: str):
        self.out, self.rc, self.wall, self.cmd = out, rc, wall, cmd
        m = re.search(r"(\d+) states generated, (\d+) distinct states found", out)
        self.generated = int(m.group(1)) if m else 0
        self.distinct = int(m.group(2)) if m else 0
        self.error = None
        if "Error:" in out or rc not in (0,):
            # invariant violations have rc 12; evaluation errors others
            em = re.search(r"Error: (.*)", out)
            self.error = em.group(1) if em else f"rc={rc}"
        self.invariant_violated = None
        im = re.search(r"Invariant (\w+) is violated", out)
        if im:
            self.invariant_violated = im.group(1)
        self.deadlock = "Deadlock reached" in out

    def verdicts(self, tag="VERDICT"):
        """Parse <<"VERDICT", i, j, "clause", a, b>> tuples (ints and strings) from TLC output."""
        res = []
        for mm in re.finditer(r'<<\s*"' + tag + r'"((?:,\s*(?:-?\d+|"[^"]*"))*)\s*>>', self.out):
            items = re.findall(r'-?\d+|"[^"]*"', mm.group(1))
            res.append(tuple(int(x) if x[0] != '"' else x[1:-1] for x in items))
        return res

    def coverage(self):
        cov = {}
        for mm in re.finditer(r"<(\w+) line \d+, col \d+ to line \d+, col \d+ of module (\w+)>: (\d+):(\d+)", self.out):
            cov[f"{mm.group(2)}.{mm.group(1)}"] = cov.get(f"{mm.group(2)}.{mm.group(1)}", 0) + int(mm.group(4))
        return cov


def run_tlc(module: str, cfg: str, env: dict | None = None, workers: int = 16, timeout: int = 3000,
            metadir: str | None = None, extra: list[str] | None = None, simulate: str | None = None,
            heap: str = "8g", coverage: bool = False, deadlock: bool = False) -> TlcResult:
    """Run TLC on spec/<module>.tla with spec/<cfg>.  `env` is exported for IOEnv."""
    metadir = metadir or os.path.join(WORK, "tlc_meta_" + hashlib.md5((module + cfg + str(time.time())).encode()).hexdigest()[:8])
    os.makedirs(metadir, exist_ok=True)
    cmd = ["java", f"-Xmx{heap}", "-XX:+UseParallelGC", "-cp", _java_cp(), "tlc2.TLC",
           "-workers", str(workers), "-metadir", metadir, "-noGenerateSpecTE", "-config", cfg]
    if coverage:
        cmd += ["-coverage", "1"]
    if simulate:
        cmd += ["-simulate", simulate]
    if extra:
        cmd += extra
    cmd.append(module)
    e = dict(os.environ)
    e.update({k: str(v) for k, v in (env or {}).items()})
    t0 = time.time()
    try:
        p = subprocess.run(cmd, cwd=SPEC, env=e, capture_output=True, text=True, timeout=timeout)
        out, rc = p.stdout + p.stderr, p.returncode
    except subprocess.TimeoutExpired as ex:
        out = (ex.stdout.decode() if isinstance(ex.stdout, bytes) else (ex.stdout or "")) + "\nError: TLC timeout"
        rc = 124
        subprocess.run(["pkill", "-f", metadir], check=False)
    shutil.rmtree(metadir, ignore_errors=True)
    return TlcResult(out, rc, time.time() - t0, " ".join(cmd[5:]))


# ---------------------------------------------------------------------------------------
class Report:
    """Collects the outcome of one check run, writes evidence, prints verdict lines."""

    def __init__(self, pid: str, tier: str, seed: int, level: str = "model_checking"):
        self.pid, self.tier, self.seed, self.level = pid, tier, seed, level
        self.t0 = time.time()
        self.states = 0
        self.transitions = 0
        self.traces = 0
        self.evaluations = 0
        self.nontrivial = set()
        self.samples: list = []
        self.violations: list[dict] = []
        self.known_hits: list[str] = []
        self.extra: dict = {}
        self.assumptions: list[str] = [
            "harness/xshim.py (tuple-ises irdl_options so /repo's dialects load under xDSL 0.70; no pass logic changed)",
            "semantics of the SNAX abstract machine as written in /verif/spec (transcribed from repo docstrings, runtime/include/snax_rt.h)",
        ]
        self.tlc_cmds: list[str] = []
        self.coverage_actions: dict = {}
        self.rule = ""
        self.refused = 0
        self.skipped = 0

    def add_tlc(self, r: TlcResult):
        self.states += r.distinct
        self.transitions += r.generated
        self.tlc_cmds.append(r.cmd)
        for k, v in r.coverage().items():
            self.coverage_actions[k] = self.coverage_actions.get(k, 0) + v

    def violation(self, key: str, what: str, replay: dict):
        self.violations.append({"key": key, "what": what, "replay": replay})

    def finish(self, known: "KnownFindings") -> int:
        wall = time.time() - self.t0
        new = []
        if REPLAY_KEY is not None:
            # --replay: the whole check was re-run with the seed/tier of the replay file; report only that case
            hit = [v for v in self.violations if v["key"] == REPLAY_KEY]
            for v in hit[:1]:
                print(f"VIOLATION property={self.pid} replay={REPLAY_PATH}")
                print(f"  -> {v['key']}: {v['what']}"[:600])
            print(f"[{self.pid}] replay of {REPLAY_KEY}: {'still violated' if hit else 'holds now'} (wall={wall:.1f}s)")
            return 1 if hit else 0
        for v in self.violations:
            kf = known.match(self.pid, v["key"])
            if kf is not None:
                self.known_hits.append(kf["key"])
                print(f"KNOWN-FINDING: property={self.pid} {kf['key']}: {kf['what']}")
            else:
                new.append(v)
        rdir = os.path.join(VERIF, "replays", self.pid)
        if len(new) > 15:
            print(f"({len(new)} new violations; writing replay files for the first 15)")
        for v in new[:15]:
            os.makedirs(rdir, exist_ok=True)
            h = hashlib.sha1(json.dumps(v["replay"], sort_keys=True, default=str).encode()).hexdigest()[:12]
            path = os.path.join(rdir, h + ".json")
            with open(path, "w") as f:
                json.dump({"property": self.pid, "key": v["key"], "what": v["what"], "seed": self.seed, "tier": self.tier, **v["replay"]}, f, indent=1, default=str)
            print(f"VIOLATION property={self.pid} replay={path}")
            print(f"  -> {v['key']}: {v['what']}"[:600])
        cov = {
            "states": max(self.states, 0),
            "transitions": max(self.transitions, 0),
            "traces_validated_against_impl": self.traces,
            "samples": self.samples[:3] or ["<none>"],
            "evaluations": self.evaluations,
            "distinct_nontrivial": len(self.nontrivial),
            "rule": self.rule,
            "refused": self.refused,
            "skipped_out_of_domain": self.skipped,
            "known_findings_reproduced": sorted(set(self.known_hits)),
            "tlc_commands": self.tlc_cmds[:6],
            "tlc_action_coverage": dict(sorted(self.coverage_actions.items())[:60]),
        }
        cov.update(self.extra)
        ev = {
            "property_id": self.pid, "tier": self.tier, "seed": self.seed, "level": self.level,
            "coverage": cov, "assumptions": self.assumptions, "wall_s": round(wall, 2),
            "violations": len(new),
        }
        if not os.environ.get("VERIF_NO_EVIDENCE"):      # (set by bin/seedmatrix: runs against a patched scratch copy are not evidence)
            os.makedirs(os.path.join(VERIF, "evidence"), exist_ok=True)
            with open(os.path.join(VERIF, "evidence", f"{self.pid}.json"), "w") as f:
                json.dump(ev, f, indent=1, default=str)
        print(f"[{self.pid}] tier={self.tier} seed={self.seed} states={self.states} traces={self.traces} "
              f"evals={self.evaluations} refused={self.refused} skipped={self.skipped} "
              f"known={len(set(self.known_hits))} new_violations={len(new)} wall={wall:.1f}s")
        return 1 if new else 0


class KnownFindings:
    """/verif/known_findings.json: committed list; never written at run time."""

    def __init__(self):
        p = os.path.join(VERIF, "known_findings.json")
        self.data = json.load(open(p)) if os.path.exists(p) else {"findings": [], "fixed": []}

    def match(self, pid: str, key: str):
        for f in self.data.get("findings", []):
            if f["property"] == pid and f["key"] == key:
                return f
        return None

    def witnesses(self, pid: str):
        return [f for f in self.data.get("findings", []) if f["property"] == pid]


def text_hash(s: str) -> str:
    return hashlib.sha1(s.encode()).hexdigest()[:12]
