"""Stand-in for the `minimalloc` package (not installed in this sandbox and not in the wheelhouse).
It is correct for the problem it is GIVEN: buffers whose lifetimes [start, end] intersect never share an
address; alignment and capacity are honoured.  What /repo hands to it (lifetimes, sizes, alignments) and
what /repo does with the answer is what C11 judges.  Every Problem is recorded in PROBLEMS."""
from __future__ import annotations

from dataclasses import dataclass

PROBLEMS: list = []


@dataclass
class Buffer:
    id: str
    start_time: int
    end_time: int
    size: int
    alignment: int = 0


class Problem:
    def __init__(self, buffers, capacity):
        self.buffers = list(buffers)
        self.capacity = capacity
        PROBLEMS.append(self)

    def solve(self):
        placed = []   # (buffer, offset)
        offsets = {}
        for b in sorted(self.buffers, key=lambda x: (-x.size, x.start_time)):
            al = b.alignment if b.alignment and b.alignment > 0 else 1
            off = 0
            while True:
                if off % al:
                    off += al - off % al
                clash = None
                for o, po in placed:
                    if not (b.end_time < o.start_time or o.end_time < b.start_time):
                        if not (off + b.size <= po or po + o.size <= off):
                            clash = po + o.size
                            break
                if clash is None:
                    break
                off = max(off + 1, clash)
            if off + b.size > self.capacity:
                raise RuntimeError("minimalloc stand-in: problem infeasible for the given capacity")
            placed.append((b, off))
            offsets[id(b)] = off
        return [offsets[id(b)] for b in self.buffers]
