"""C12: materialised layout / memory-space casts deliver the right data to every consumer;
compile-time re-laid-out constants and globals hold the same logical values."""
from __future__ import annotations

import random
import traceback

import numpy as np

import repo  # noqa: F401
from common import KnownFindings, MachineryError, Report, text_hash
from export_ir import funcs_of
from objs import export_tsl, run_obj_batch
from pairs import image_of, oracle_at, run_pair_batch

ID2 = "affine_map<(d0, d1) -> (d0, d1)>"
LAYOUTS = ["#tsl.tsl<[4] -> (1), [4] -> (4)>", "#tsl.tsl<[2, 2] -> (8, 2), [2, 2] -> (4, 1)>", "#tsl.tsl<[4] -> (4), [4] -> (1)>",
           "#tsl.tsl<[2, 2] -> (2, 1), [2, 2] -> (8, 4)>"]


def mt(layout="", space=""):
    parts = ["4x4xi8"]
    if layout:
        parts.append(layout)
    if space:
        parts.append(f'"{space}"')
    return "memref<" + ", ".join(parts) + ">"


def gen_func(rng, with_spaces):
    """with_spaces: plain program (no casts), run through set-memory-space + realize; else: explicit layout casts."""
    lines = ["    %c0 = arith.constant 0 : index", "    %c1 = arith.constant 1 : index", "    %c2 = arith.constant 2 : index"]
    base = mt()
    vals = [("%a", base), ("%b", base), ("%c", base)]
    tag = [0]
    if rng.random() < 0.4:
        lines.append(f"    %l0 = memref.alloc() : {base}")
        vals.append(("%l0", base))
    if with_spaces and rng.random() < 0.3:
        # a window of a larger buffer, also with a non-unit step
        o0, o1, s0, s1 = rng.choice([0, 1]), rng.choice([0, 2]), rng.choice([1, 2]), rng.choice([1, 1, 2])
        if o1 + 3 * s1 > 7:
            o1 = 0
        svt = f"memref<4x4xi8, strided<[{8 * s0}, {s1}], offset: {o0 * 8 + o1}>>"
        lines.append("    %w = memref.alloc() : memref<8x8xi8>")
        lines.append(f"    %sv = memref.subview %w[{o0}, {o1}] [4, 4] [{s0}, {s1}] : memref<8x8xi8> to {svt}")
        vals.append(("%sv", svt))
    if with_spaces and rng.random() < 0.3:
        # a constant buffer (no memory space assigned by anything): only ever read
        rows = ", ".join("[" + ", ".join(str(r * 4 + c) for c in range(4)) + "]" for r in range(4))
        lines.append(f"    %cst = arith.constant dense<[{rows}]> : {base}")
        consts = [("%cst", base)]
    else:
        consts = []
    gdecl = ""
    if with_spaces and rng.random() < 0.25:
        # a global (external memory) read by the accelerator ops
        gname = f"gk{rng.randrange(10 ** 6)}"
        gdecl = (f'  "memref.global"() <{{sym_name = "{gname}", type = {base}, initial_value = dense<{rng.choice([1, 2, 5])}> : tensor<4x4xi8>, '
                 'sym_visibility = "private", constant}> : () -> ()\n')
        lines.append(f"    %gv = memref.get_global @{gname} : {base}")
        consts = consts + [("%gv", base)]
    cast_id = [0]

    def make_cast(src, chain=1):
        v, t = src
        for _ in range(chain):
            cast_id[0] += 1
            lay = rng.choice(LAYOUTS)
            nt = mt(lay)
            lines.append(f'    %k{cast_id[0]} = "snax.layout_cast"({v}) : ({t}) -> {nt}')
            v, t = f"%k{cast_id[0]}", nt
        return (v, t)
    casts = []
    if not with_spaces:
        # every source buffer is accessed either directly or through exactly one (chain of) cast(s): a cast is a snapshot of its source,
        # interleaving accesses through two access paths of one buffer is outside the pass's contract
        srcs = rng.sample(vals, rng.randint(1, min(3, len(vals))))
        for src in srcs:
            casts.append(make_cast(src, rng.choice([1, 1, 2])))
            vals.remove(src)

    def generic(ind):
        tag[0] += 1
        pool = (casts * 2 + vals) if casts else vals
        if not pool:
            pool = casts
        x, y, z = rng.choice(pool + consts), rng.choice(pool + consts * 2), rng.choice(pool)
        lines.append("  " * ind + f'linalg.generic {{indexing_maps = [{ID2}, {ID2}, {ID2}], iterator_types = ["parallel", "parallel"]}} '
                     f'ins({x[0]}, {y[0]} : {x[1]}, {y[1]}) outs({z[0]} : {z[1]}) attrs = {{tag = {tag[0]} : i32}} {{')
        lines.append("  " * ind + "^bb0(%x : i8, %y : i8, %z : i8):")
        lines.append("  " * (ind + 1) + "%m = arith.muli %x, %y : i8")
        lines.append("  " * (ind + 1) + "linalg.yield %m : i8")
        lines.append("  " * ind + "}")
    for _ in range(rng.randint(1, 3)):
        if rng.random() < 0.25:
            lines.append("    scf.for %i = %c0 to %n step %c1 {")
            generic(3)
            lines.append("    }")
        else:
            generic(2)
    # some functions hand a buffer (an argument or a local one) back to their caller: the boundary keeps its external memory space
    ret = rng.choice([v for v in vals if v[1] == base] or [None]) if with_spaces and rng.random() < 0.2 else None
    lines.append(f"    func.return {ret[0]} : {base}" if ret else "    func.return")
    # (a function that is not public keeps its arguments without a memory space: they still have to be moved next to the accelerator)
    vis = "public " if not with_spaces or ret or rng.random() < 0.8 else ""
    return ("builtin.module {\n" + gdecl + "  func.func " + vis + "@f(%a : " + base + ", %b : " + base + ", %c : " + base + ", %n : index)"
            + (f" -> {base}" if ret else "") + " {\n" + "\n".join(lines) + "\n  }\n}\n")


DYNI = -9223372036854775808


def insert_layout_casts(module, rng):
    """what set-memory-layout does for the operands of an accelerator operation, applied to linalg.generic ops between two real passes:
    a snax.layout_cast to a tiled layout in front of (some of) the operands, built with the repository's own helper"""
    from xdsl.dialects import linalg
    from xdsl.parser import Parser

    from snaxc.dialects.snax import LayoutCast
    ctx = repo.opt_main().ctx
    # one access path per buffer (a cast is a snapshot of its source, see DESIGN 6.3): a buffer is either used directly by every accelerator
    # op or through ONE layout cast, made in front of its first user
    from xdsl.dialects import memref as _memref
    from xdsl.ir import OpResult

    def root(v):
        while isinstance(v, OpResult) and isinstance(v.op, _memref.MemorySpaceCastOp):
            v = v.op.source
        return v
    chosen = {}        # buffer -> the layout every accelerator op sees it in (None: as it is)
    for g in [o for o in module.walk() if isinstance(o, linalg.GenericOp)]:
        for i, v in enumerate(list(g.operands)):
            r = root(v)
            if r not in chosen:
                ok = rng.random() < 0.7 and str(v.type).startswith("memref<4x4xi8") and "tsl" not in str(v.type)
                chosen[r] = Parser(ctx, rng.choice(LAYOUTS)).parse_attribute() if ok else None
            if chosen[r] is not None:
                c = LayoutCast.from_type_and_target_layout(v, chosen[r])
                g.parent_block().insert_op_before(c, g)
                g.operands[i] = c.results[0]


def dense_ints(attr):
    from xdsl.dialects.builtin import DenseIntOrFPElementsAttr
    assert isinstance(attr, DenseIntOrFPElementsAttr)
    return [int(x) for x in np.frombuffer(attr.data.data, dtype=np.int8)]


def run(pid: str, tier: str, seed: int, selftest=False, replay=None) -> int:
    from xdsl.dialects import arith, memref
    rep = Report(pid, tier, seed)
    known = KnownFindings()
    rng = random.Random(seed)
    quick = tier == "quick"
    cases = []
    n = 220 if quick else 4000
    import glob, json, os
    jobs = []
    base = os.path.join(os.path.dirname(os.path.dirname(os.path.abspath(__file__))), "known", pid)
    for p in sorted(glob.glob(os.path.join(base, "*.json"))):
        wj = json.load(open(p))
        jobs.append((f"witness:{pid}/{os.path.basename(p)}", wj["text"], wj["pipe"] != "realize-memref-casts", wj["argdom"]))
    for k in range(n):
        with_spaces = k % 3 == 0
        jobs.append((f"gen:{seed}:{k}", gen_func(rng, with_spaces), with_spaces, None))
    # constants that are not in local memory: constant -> memory-space cast to L1 -> (chain of) layout cast(s) -> accelerator op;
    # the other operands are arguments that already live in L1
    for k in range(30 if quick else 300):
        lt = mt("", "L1")
        rows = ", ".join("[" + ", ".join(str(r * 4 + c) for c in range(4)) + "]" for r in range(4))
        lines = [f"    %cst = arith.constant dense<[{rows}]> : {mt()}", f'    %m = "memref.memory_space_cast"(%cst) : ({mt()}) -> {lt}']
        v, t = "%m", lt
        for j in range(rng.choice([0, 1, 1, 2])):
            nt = mt(rng.choice(LAYOUTS), "L1")
            lines.append(f'    %k{j} = "snax.layout_cast"({v}) : ({t}) -> {nt}')
            v, t = f"%k{j}", nt
        for q in range(rng.choice([1, 1, 2])):
            ins = [(v, t), ("%a", lt)]
            rng.shuffle(ins)
            lines.append(f'    linalg.generic {{indexing_maps = [{ID2}, {ID2}, {ID2}], iterator_types = ["parallel", "parallel"]}} '
                         f'ins({ins[0][0]}, {ins[1][0]} : {ins[0][1]}, {ins[1][1]}) outs(%b : {lt}) attrs = {{tag = {q + 1} : i32}} {{')
            lines += ["    ^bb0(%x : i8, %y : i8, %z : i8):", "      %mm = arith.muli %x, %y : i8", "      linalg.yield %mm : i8", "    }"]
        text = ("builtin.module {\n  func.func public @f(%a : " + lt + ", %b : " + lt + ", %c : " + lt + ", %n : index) {\n" + "\n".join(lines)
                + "\n    func.return\n  }\n}\n")
        jobs.append((f"constchain:{seed}:{k}", text, "l1", None))
    # a buffer the function allocates, fills through a (chain of) cast(s) and returns to its caller in external memory
    for k in range(30 if quick else 300):
        lt, et = mt("", "L1"), mt("", "L3")
        lines = [f"    %l = memref.alloc() : {lt}"]
        v, t = "%l", lt
        for j in range(rng.choice([1, 1, 2])):
            nt = mt(rng.choice(LAYOUTS), "L1")
            lines.append(f'    %k{j} = "snax.layout_cast"({v}) : ({t}) -> {nt}')
            v, t = f"%k{j}", nt
        lines.append(f'    linalg.generic {{indexing_maps = [{ID2}, {ID2}, {ID2}], iterator_types = ["parallel", "parallel"]}} '
                     f'ins(%a, %b : {lt}, {lt}) outs({v} : {t}) attrs = {{tag = 1 : i32}} {{')
        lines += ["    ^bb0(%x : i8, %y : i8, %z : i8):", "      %mm = arith.muli %x, %y : i8", "      linalg.yield %mm : i8", "    }"]
        if rng.random() < 0.5:
            lines.append(f'    linalg.generic {{indexing_maps = [{ID2}, {ID2}, {ID2}], iterator_types = ["parallel", "parallel"]}} '
                         f'ins({v}, %a : {t}, {lt}) outs(%c : {lt}) attrs = {{tag = 2 : i32}} {{')
            lines += ["    ^bb0(%x : i8, %y : i8, %z : i8):", "      %mm = arith.muli %x, %y : i8", "      linalg.yield %mm : i8", "    }"]
        lines.append(f'    %r = "memref.memory_space_cast"(%l) : ({lt}) -> {et}')
        text = ("builtin.module {\n  func.func public @f(%a : " + lt + ", %b : " + lt + ", %c : " + lt + ", %n : index) -> " + et + " {\n" + "\n".join(lines)
                + "\n    func.return %r : " + et + "\n  }\n}\n")
        jobs.append((f"returned:{seed}:{k}", text, "l1", None))
    # the passes that finish the memory story: (1) alloc-to-global turns buffers a function returns into statically allocated globals -
    # each its own; (2) clear-memory-space erases memory spaces and tiled layouts from every type once they have been acted on
    base_t = mt()
    for k in range(30 if quick else 300):
        nret = rng.choice([1, 2, 2])
        lines, rets = [], []
        for j in range(nret):
            lines.append(f"    %l{j} = memref.alloc() : {base_t}")
            lines.append(f'    linalg.generic {{indexing_maps = [{ID2}, {ID2}, {ID2}], iterator_types = ["parallel", "parallel"]}} '
                         f'ins(%a, {rng.choice(["%b", "%c"])} : {base_t}, {base_t}) outs(%l{j} : {base_t}) attrs = {{tag = {j + 1} : i32}} {{')
            lines += ["    ^bb0(%x : i8, %y : i8, %z : i8):", "      %mm = arith.muli %x, %y : i8", "      linalg.yield %mm : i8", "    }"]
            rets.append(f"%l{j}")
        if rng.random() < 0.6:
            lines.append(f'    linalg.generic {{indexing_maps = [{ID2}, {ID2}, {ID2}], iterator_types = ["parallel", "parallel"]}} '
                         f'ins({rets[0]}, {rets[-1]} : {base_t}, {base_t}) outs(%c : {base_t}) attrs = {{tag = 9 : i32}} {{')
            lines += ["    ^bb0(%x : i8, %y : i8, %z : i8):", "      %mm = arith.muli %x, %y : i8", "      linalg.yield %mm : i8", "    }"]
        if rng.random() < 0.3:
            lines.append(f'    %tmp = memref.alloc() : {base_t}')
            lines.append(f'    "memref.copy"(%a, %tmp) : ({base_t}, {base_t}) -> ()')
            lines.append(f'    "memref.dealloc"(%tmp) : ({base_t}) -> ()')
        text = ("builtin.module {\n  func.func public @f(%a : " + base_t + ", %b : " + base_t + ", %c : " + base_t + ", %n : index) -> (" + ", ".join([base_t] * nret) + ") {\n"
                + "\n".join(lines) + "\n    func.return " + ", ".join(rets) + " : " + ", ".join([base_t] * nret) + "\n  }\n}\n")
        jobs.append((f"toglobal:{seed}:{k}", text, "pipe:alloc-to-global", None))
    for k in range(40 if quick else 400):
        jobs.append((f"cleared:{seed}:{k}", gen_func(rng, True), "pipe:set-memory-space,realize-memref-casts,clear-memory-space", None))
    # the real pipeline order: memory spaces first (that inserts the memory-space casts at the function boundary), then layout casts in
    # front of the accelerator operands (as set-memory-layout does), then realize-memref-casts - on functions that hand a local buffer
    # written by an accelerator op back to their caller
    for k in range(30 if quick else 400):
        base_t = mt()
        lines = ["    %c0 = arith.constant 0 : index", "    %c1 = arith.constant 1 : index", f"    %l0 = memref.alloc() : {base_t}"]
        outs = ["%l0"]
        if rng.random() < 0.4:
            lines.append(f"    %l1 = memref.alloc() : {base_t}")
            outs.append("%l1")
        for j in range(rng.randint(1, 3)):
            x, y = rng.choice(["%a", "%b"] + (outs if j else [])), rng.choice(["%a", "%b", "%c"])
            z = outs[j % len(outs)] if j < len(outs) else rng.choice(outs + ["%c"])
            lines.append(f'    linalg.generic {{indexing_maps = [{ID2}, {ID2}, {ID2}], iterator_types = ["parallel", "parallel"]}} '
                         f'ins({x}, {y} : {base_t}, {base_t}) outs({z} : {base_t}) attrs = {{tag = {j + 1} : i32}} {{')
            lines += ["    ^bb0(%x : i8, %y : i8, %z : i8):", "      %mm = arith.muli %x, %y : i8", "      linalg.yield %mm : i8", "    }"]
        nret = len(outs) if rng.random() < 0.7 else 1
        text = ("builtin.module {\n  func.func public @f(%a : " + base_t + ", %b : " + base_t + ", %c : " + base_t + ", %n : index) -> (" + ", ".join([base_t] * nret) + ") {\n"
                + "\n".join(lines) + "\n    func.return " + ", ".join(outs[:nret]) + " : " + ", ".join([base_t] * nret) + "\n  }\n}\n")
        jobs.append((f"staged:{seed}:{k}", text, "pipe:set-memory-space,@layoutcasts,realize-memref-casts", None))
    # run-time shapes: arguments with dynamic dimensions in any position (a dynamic size behind a static one, a static one between two
    # dynamic ones ...); the buffers the compiler puts next to the accelerator must have the run-time shape of what they stand in for
    for k in range(40 if quick else 500):
        shp = rng.choice(["?x4", "3x?", "?x?", "?x2x?", "?", "2x?x3", "?x3x?", "2x?"])
        dims = shp.split("x")
        rank = len(dims)
        ty = f"memref<{shp}xi8>"
        idm = "affine_map<(" + ", ".join(f"d{i}" for i in range(rank)) + ") -> (" + ", ".join(f"d{i}" for i in range(rank)) + ")>"
        iters = ", ".join(['"parallel"'] * rank)
        body, tagn = [], 0
        for _ in range(rng.randint(1, 3)):
            tagn += 1
            x, y, z = (rng.choice(["%a", "%b", "%c"]) for _ in range(3))
            ind = "    "
            loop = rng.random() < 0.2
            if loop:
                body.append("    scf.for %i = %c0 to %n step %c1 {")
                ind = "      "
            body.append(f'{ind}linalg.generic {{indexing_maps = [{idm}, {idm}, {idm}], iterator_types = [{iters}]}} ins({x}, {y} : {ty}, {ty}) outs({z} : {ty}) attrs = {{tag = {tagn} : i32}} {{')
            body.append(f"{ind}^bb0(%x : i8, %y : i8, %z : i8):")
            body.append(f"{ind}  %m = arith.muli %x, %y : i8")
            body.append(f"{ind}  linalg.yield %m : i8")
            body.append(f"{ind}}}")
            if loop:
                body.append("    }")
        text = ("builtin.module {\n  func.func public @f(%a : " + ty + ", %b : " + ty + ", %c : " + ty + ", %n : index) {\n"
                "    %c0 = arith.constant 0 : index\n    %c1 = arith.constant 1 : index\n" + "\n".join(body) + "\n    func.return\n  }\n}\n")
        descdom = []
        for alt in range(2):
            pool = rng.sample([5, 6, 7, 9, 11], 3)
            sizes = [pool.pop() if d == "?" else int(d) for d in dims]
            strides = [int(np.prod(sizes[d + 1:])) for d in range(rank)]
            one = {"valid": 1, "base": 0, "off": 0, "sizes": sizes, "strides": strides}
            descdom.append([dict(one), dict(one), dict(one), {"valid": 0, "base": 0, "off": 0, "sizes": [], "strides": []}])
        jobs.append((f"dynshape:{seed}:{k}:{shp}", text, True, {"argdom": [[900001], [900002], [900003], [0, 1, 2]], "descdom": descdom}))
    prev_text = None
    svcases = []
    for ji, (name, text, with_spaces, wargdom) in enumerate(jobs):
        wdesc = None
        if isinstance(wargdom, dict):
            wargdom, wdesc = wargdom["argdom"], wargdom["descdom"]
        own = text
        if name.startswith("gen:") and ji % 3 == 0 and prev_text is not None and with_spaces == prev_ws:
            text = repo.add_companion(text, prev_text)       # one pass run over two functions; @f is judged
        prev_text, prev_ws = own, with_spaces
        try:
            src = repo.parse(text)
            src.verify()
        except Exception as e:
            raise MachineryError(f"generator produced invalid input {name}: {e}\n{text}")
        pipe = "set-memory-space,realize-memref-casts" if with_spaces is True else "realize-memref-casts"
        if isinstance(with_spaces, str) and with_spaces.startswith("pipe:"):
            pipe = with_spaces[5:]
        m = src.clone()
        try:
            for si, stage in enumerate(pipe.split(",@layoutcasts,")):
                if si > 0:
                    insert_layout_casts(m, random.Random(text_hash(text)))
                repo.run_pipeline(m, stage)
            m.verify()
        except Exception as e:
            rep.evaluations += 1
            rep.violation(name, f"{pipe} raised {type(e).__name__}: {str(e)[:200]}", {"source": text, "exception": traceback.format_exc(limit=6)})
            continue
        if any(o.name in ("snax.layout_cast", "memref.memory_space_cast") and o.results[0].uses.get_length() > 0 for o in m.walk()):
            # (dead intermediate casts of a chain are left for DCE and are not consumers of anything)
            rep.violation(name, "casts that still have users remain after realize-memref-casts", {"source": text, "after": str(m)[:3000]})
            continue
        fa, fb = funcs_of(src)["f"], funcs_of(m)["f"]
        # the type of every subview must describe what its operands select from its source
        from xdsl.dialects.builtin import NoneAttr as _None, StridedLayoutAttr as _SL
        for sv in [o for o in fb.walk() if isinstance(o, memref.SubviewOp)]:
            st, rt = sv.source.type, sv.result.type
            if not isinstance(rt.layout, _SL) or DYNI in sv.static_offsets.get_values() or DYNI in sv.static_strides.get_values():
                continue
            if isinstance(st.layout, _None):
                shp = st.get_shape()
                sstr = [int(np.prod(shp[d + 1:])) for d in range(len(shp))]
                soff = 0
            elif isinstance(st.layout, _SL) and all(hasattr(x, "data") for x in st.layout.strides.data):
                sstr, soff = [x.data for x in st.layout.strides.data], (st.layout.offset.data if hasattr(st.layout.offset, "data") else -1)
            else:
                continue
            rstr = [x.data if hasattr(x, "data") else -1 for x in rt.layout.strides.data]
            roff = rt.layout.offset.data if hasattr(rt.layout.offset, "data") else -1
            svcases.append({"kind": "subviewtype", "name": name + "|subview", "sstr": sstr, "soff": soff, "offs": list(sv.static_offsets.get_values()),
                            "steps": list(sv.static_strides.get_values()), "rstr": rstr, "roff": roff, "text": text, "after": str(fb)[:3000]})
        ia, ib = image_of(fa), image_of(fb)
        for im in (ia, ib):
            im["allocsite"], im["track"] = 1, 1
        if with_spaces is True:
            # function boundaries keep their external memory space
            ext = [str(a.type.memory_space) for a in fb.body.block.args if hasattr(a.type, "memory_space")]
            ext += [str(t.memory_space) for t in fb.function_type.outputs.data if hasattr(t, "memory_space")]
            if any('"L1"' in e for e in ext):
                rep.violation(name + "|signature", f"function arguments / results moved to local memory: {ext}", {"source": text, "after": str(fb)[:2000]})
            # globals live in external memory: the accelerator reads a local copy of them
            gl = [str(o.memref.type.memory_space) for o in fb.walk() if isinstance(o, memref.GetGlobalOp)]
            if any('"L3"' not in g for g in gl) and not pipe.endswith("clear-memory-space"):
                rep.violation(name + "|globals", f"memref.get_global outside the external memory space: {gl}", {"source": text, "after": str(fb)[:2000]})
        if pipe.endswith("clear-memory-space") and any(s_ in str(m) for s_ in ('"L1"', '"L3"', "#tsl.tsl")):
            rep.violation(name + "|cleared", "memory spaces / tiled layouts remain after clear-memory-space", {"source": text, "after": str(m)[:3000]})
        needl1 = 1 if (with_spaces is True or with_spaces == "l1") else 0
        cases.append({"name": name, "A": ia, "B": ib, "argdom": wargdom or [[900001], [900002], [900003], [0, 1, 2, 3]], "opqdom": [[0]],
                      "extra": {"needl1": needl1}, "text": text, "after": str(fb)[:4000], "pipe": pipe, **({"descdom": wdesc} if wdesc else {})})
    rep.rule = (f"{n} generated functions mixing arguments, allocations and chains of 1-2 layout casts feeding 1-3 accelerator ops (linalg.generic) as "
                "inputs and/or outputs in any order, also inside loops; through the real realize-memref-casts (explicit casts) or set-memory-space + "
                "realize-memref-casts (casts inserted by the compiler); TLC runs both programs with symbolic buffer contents (a cast is an alias before, "
                "a buffer with copies after): every accelerator op reads the same terms, all argument buffers end with the same terms, accelerator "
                "operands are in L1; constants / globals re-laid-out at compile time are compared element by element with Layout.tla; "
                "non-trivial = program whose IR changed")
    CH = 300
    for lo in range(0, len(cases), CH):
        chunk = cases[lo:lo + CH]
        r, per = run_pair_batch(pid, "casts", chunk, tag=f"batch{lo}", coverage=(lo == 0))
        rep.add_tlc(r)
        for tid, vs in per.items():
            c = chunk[tid - 1]
            rep.evaluations += len(vs)
            if all(v[1].startswith("skipA") for v in vs):
                rep.skipped += 1
                rep.extra.setdefault("skip_reasons", {})
                rep.extra["skip_reasons"][vs[0][1]] = rep.extra["skip_reasons"].get(vs[0][1], 0) + 1
                continue
            rep.traces += 1
            rep.nontrivial.add(text_hash(c["text"]))
            if len(rep.samples) < 2:
                rep.samples.append({"case": c["name"], "pipeline": c["pipe"], "source": c["text"], "after": c["after"]})
            bad = [v for v in vs if v[1] != "ok" and not v[1].startswith("skipA")]
            if bad:
                oi, verdict, _, _ = sorted(bad)[0]
                rep.violation(c["name"], f"{c['pipe']}: clause {verdict} fails for n = {oracle_at(c, oi)['args'][3:]} ({len(bad)}/{len(vs)} oracles)",
                              {"source": c["text"], "after": c["after"], "clause": verdict})
    if svcases:
        r, verdicts = run_obj_batch(pid, svcases, tag="subviewtypes")
        rep.add_tlc(r)
        for tid, v in verdicts.items():
            c = svcases[tid - 1]
            rep.evaluations += 1
            if v != "ok":
                rep.violation(c["name"], f"clause {v} fails: a subview with offsets {c['offs']} steps {c['steps']} of a source with strides {c['sstr']} "
                              f"is typed strided<{c['rstr']}, offset: {c['roff']}>", {"source": c["text"], "after": c["after"], "clause": v})
    # ---- constants / globals
    rcases = []
    dense_layouts = []
    # all dense static layouts of a 4x4 (and 2x8 / 8x2) i8 operand built from tile splits and level orders
    for shape, splits in (((4, 4), [[4], [4]]), ((4, 4), [[2, 2], [2, 2]]), ((4, 4), [[2, 2], [4]]), ((2, 8), [[2], [2, 4]]), ((8, 2), [[2, 4], [2]]),
                          ((4, 4), [[4], [2, 2]])):
        levels = [(i, j) for i, sp in enumerate(splits) for j in range(len(sp))]
        import itertools
        for order in itertools.permutations(levels):
            steps, cur = {}, 1
            for (i, j) in order:
                steps[(i, j)] = cur
                cur *= splits[i][j]
            lay = ", ".join("[" + ", ".join(str(b) for b in sp) + "] -> (" + ", ".join(str(steps[(i, j)]) for j in range(len(sp))) + ")"
                            for i, sp in enumerate(splits))
            dense_layouts.append((shape, lay))
    rng.shuffle(dense_layouts)
    for k, (shape, lay) in enumerate(dense_layouts[: (40 if quick else len(dense_layouts))]):
        nel = shape[0] * shape[1]
        vals = ", ".join(str(v) for v in range(nel))
        shp = f"{shape[0]}x{shape[1]}"
        for kind in ("constant", "global"):
            if kind == "constant":
                rows = ", ".join("[" + ", ".join(str(r * shape[1] + c) for c in range(shape[1])) + "]" for r in range(shape[0]))
                text = f"""builtin.module {{
  func.func public @f(%o : memref<{shp}xi8>) {{
    %cst = arith.constant dense<[{rows}]> : memref<{shp}xi8>
    %k = "snax.layout_cast"(%cst) : (memref<{shp}xi8>) -> memref<{shp}xi8, #tsl.tsl<{lay}>>
    "test.op"(%k) : (memref<{shp}xi8, #tsl.tsl<{lay}>>) -> ()
    func.return
  }}
}}
"""
            else:
                rows = ", ".join("[" + ", ".join(str(r * shape[1] + c) for c in range(shape[1])) + "]" for r in range(shape[0]))
                text = f"""builtin.module {{
  "memref.global"() <{{sym_name = "g", type = memref<{shp}xi8>, initial_value = dense<[{rows}]> : tensor<{shp}xi8>, sym_visibility = "private", constant}}> : () -> ()
  func.func public @f(%o : memref<{shp}xi8>) {{
    %g = memref.get_global @g : memref<{shp}xi8>
    %k = "snax.layout_cast"(%g) : (memref<{shp}xi8>) -> memref<{shp}xi8, #tsl.tsl<{lay}>>
    "test.op"(%k) : (memref<{shp}xi8, #tsl.tsl<{lay}>>) -> ()
    func.return
  }}
}}
"""
            name = f"relayout:{kind}:{shp}:{lay}"
            try:
                m = repo.parse(text)
                m.verify()
            except Exception as e:
                raise MachineryError(f"relayout input invalid: {e}\n{text}")
            try:
                repo.run_pipeline(m, "realize-memref-casts")
            except Exception as e:
                rep.violation(name, f"realize-memref-casts raised {type(e).__name__}: {str(e)[:160]}", {"source": text})
                continue
            new = None
            for o in m.walk():
                if kind == "constant" and isinstance(o, arith.ConstantOp) and hasattr(o.value, "data") and hasattr(o.value.data, "data"):
                    if "tsl" in str(o.value.type):
                        new = dense_ints(o.value)
                if kind == "global" and isinstance(o, memref.GlobalOp) and "tsl" in str(o.type):
                    new = dense_ints(o.initial_value)
            if new is None:
                rep.refused += 1      # not transformed at compile time (a copy is materialised instead): covered by the program part
                continue
            from xdsl.parser import Parser
            L = export_tsl(Parser(repo.opt_main().ctx, f"#tsl.tsl<{lay}>").parse_attribute().data)
            rcases.append({"kind": "relayout", "name": name, "shape": list(shape), "L": L, "old": list(range(nel)), "new": new, "text": text})
    # ---- subview of a global: the global is re-laid-out so that the subview has the requested layout
    from xdsl.parser import Parser as _P
    n_sub = 40 if quick else 400
    for k in range(n_sub):
        shape, lay = dense_layouts[rng.randrange(len(dense_layouts))]
        mults = [rng.choice([1, 2, 2, 3]) for _ in shape]
        while (shape[0] * mults[0]) * (shape[1] * mults[1]) > 120:
            mults[rng.randrange(2)] = 1
        gshape = [shape[d] * mults[d] for d in range(2)]
        nel = gshape[0] * gshape[1]
        rows = ", ".join("[" + ", ".join(str(r * gshape[1] + c) for c in range(gshape[1])) + "]" for r in range(gshape[0]))
        gs, ss = f"{gshape[0]}x{gshape[1]}", f"{shape[0]}x{shape[1]}"
        dyn = [mults[d] > 1 and rng.random() < 0.7 for d in range(2)]
        stat = [DYNI if dyn[d] else shape[d] * rng.randrange(mults[d]) for d in range(2)]
        dargs = [f"%o{d}" for d in range(2) if dyn[d]]
        subt = f"memref<{ss}xi8, strided<[{gshape[1]}, 1], offset: ?>>"
        # a second tile of the same global (the global then has two users: it cannot be re-laid-out for one of them only)
        second = ""
        if k % 3 == 0 and max(mults) > 1:
            stat2 = [shape[d] * rng.randrange(mults[d]) for d in range(2)]
            second = f"""
    %sv2 = "memref.subview"(%g) <{{operandSegmentSizes = array<i32: 1, 0, 0, 0>, static_offsets = array<i64: {stat2[0]}, {stat2[1]}>, static_sizes = array<i64: {shape[0]}, {shape[1]}>, static_strides = array<i64: 1, 1>}}> : (memref<{gs}xi8>) -> {subt}
    %k2 = "snax.layout_cast"(%sv2) : ({subt}) -> memref<{ss}xi8, #tsl.tsl<{lay}>>
    "test.op"(%k2) : (memref<{ss}xi8, #tsl.tsl<{lay}>>) -> ()"""
        text = f"""builtin.module {{
  "memref.global"() <{{sym_name = "g", type = memref<{gs}xi8>, initial_value = dense<[{rows}]> : tensor<{gs}xi8>, sym_visibility = "private", constant}}> : () -> ()
  func.func public @f({', '.join(a + ' : index' for a in dargs)}) {{
    %g = memref.get_global @g : memref<{gs}xi8>
    %sv = "memref.subview"(%g{''.join(', ' + a for a in dargs)}) <{{operandSegmentSizes = array<i32: 1, {len(dargs)}, 0, 0>, static_offsets = array<i64: {stat[0]}, {stat[1]}>, static_sizes = array<i64: {shape[0]}, {shape[1]}>, static_strides = array<i64: 1, 1>}}> : (memref<{gs}xi8>{', index' * len(dargs)}) -> {subt}
    %k = "snax.layout_cast"(%sv) : ({subt}) -> memref<{ss}xi8, #tsl.tsl<{lay}>>
    "test.op"(%k) : (memref<{ss}xi8, #tsl.tsl<{lay}>>) -> (){second}
    func.return
  }}
}}
"""
        name = f"relayout:subview-global:{gs}:{ss}:{lay}:{stat}"
        try:
            m = repo.parse(text)
            m.verify()
        except Exception as e:
            raise MachineryError(f"subview-global input invalid: {e}\n{text}")
        try:
            repo.run_pipeline(m, "realize-memref-casts")
        except Exception as e:
            rep.violation(name, f"realize-memref-casts raised {type(e).__name__}: {str(e)[:160]}", {"source": text})
            continue
        newg = [o for o in m.walk() if isinstance(o, memref.GlobalOp)]
        svs = [o for o in m.walk() if isinstance(o, memref.SubviewOp)]
        if len(newg) != 1 or "tsl" not in str(newg[0].type):
            rep.refused += 1      # not transformed at compile time: a copy is materialised instead (program part)
            continue
        # every subview of the re-laid-out global must see, through the layout its own result type claims, the elements of its tile
        from xdsl.dialects.builtin import StridedLayoutAttr
        for q, sv in enumerate(svs):
            svl = sv.result.type.layout
            if isinstance(svl, StridedLayoutAttr):
                subL = {"dims": [[{"b": b, "s": st.data}] for b, st in zip(shape, svl.strides.data)], "off": 0}
            elif "tsl" in str(svl):
                subL = export_tsl(svl.data)
            else:
                subL = {"dims": [[{"b": shape[0], "s": shape[1]}], [{"b": shape[1], "s": 1}]], "off": 0}
            so = [x for x in sv.static_offsets.get_values()]
            offs = [[a, b] for a in ([shape[0] * i for i in range(mults[0])] if so[0] == DYNI else [so[0]])
                    for b in ([shape[1] * i for i in range(mults[1])] if so[1] == DYNI else [so[1]])]
            rcases.append({"kind": "relayout", "name": name + f"#sv{q}", "shape": gshape, "L": export_tsl(newg[0].type.layout.data), "old": list(range(nel)),
                           "new": dense_ints(newg[0].initial_value), "text": text, "after": str(m)[:3000],
                           "sub": {"L": subL, "sizes": list(shape), "offs": offs}})
    # ---- transposed constants folded at compile time (RemoveTransposeConstants)
    from xdsl.pattern_rewriter import PatternRewriteWalker
    from snaxc.transforms.frontend.remove_transpose_constants import RemoveTransposeConstants
    for (s0, s1) in ([(2, 3), (3, 2), (1, 4), (4, 1), (4, 4), (2, 8), (5, 3)] if quick else [(a, b) for a in range(1, 7) for b in range(1, 7)]):
        rows = ", ".join("[" + ", ".join(str(r * s1 + c) for c in range(s1)) + "]" for r in range(s0))
        text = f"""builtin.module {{
  func.func public @f() -> tensor<{s1}x{s0}xi8> {{
    %cst = arith.constant dense<[{rows}]> : tensor<{s0}x{s1}xi8>
    %e = tensor.empty() : tensor<{s1}x{s0}xi8>
    %t = linalg.generic {{indexing_maps = [affine_map<(d0, d1) -> (d1, d0)>, affine_map<(d0, d1) -> (d0, d1)>], iterator_types = ["parallel", "parallel"]}} ins(%cst : tensor<{s0}x{s1}xi8>) outs(%e : tensor<{s1}x{s0}xi8>) {{
    ^bb0(%x : i8, %y : i8):
      linalg.yield %x : i8
    }} -> tensor<{s1}x{s0}xi8>
    func.return %t : tensor<{s1}x{s0}xi8>
  }}
}}
"""
        name = f"relayout:transpose-constant:{s0}x{s1}"
        try:
            m = repo.parse(text)
            m.verify()
        except Exception as e:
            raise MachineryError(f"transpose input invalid: {e}\n{text}")
        try:
            PatternRewriteWalker(RemoveTransposeConstants(), apply_recursively=False).rewrite_module(m)
        except Exception as e:
            rep.violation(name, f"RemoveTransposeConstants raised {type(e).__name__}: {str(e)[:160]}", {"source": text})
            continue
        consts = [o for o in m.walk() if isinstance(o, arith.ConstantOp) and hasattr(o.value, "data") and hasattr(o.value.data, "data")]
        if any(o.name == "linalg.generic" for o in m.walk()) or len(consts) != 1:
            rep.refused += 1
            continue
        # logical element (a, b) of the s0 x s1 constant must be element (b, a) of the row-major s1 x s0 result: address b * s0 + a
        L = {"dims": [[{"b": s0, "s": 1}], [{"b": s1, "s": s0}]], "off": 0}
        rcases.append({"kind": "relayout", "name": name, "shape": [s0, s1], "L": L, "old": list(range(s0 * s1)), "new": dense_ints(consts[0].value),
                       "text": text})
    if rcases:
        r, verdicts = run_obj_batch(pid, rcases, tag="relayout")
        rep.add_tlc(r)
        for tid, v in verdicts.items():
            c = rcases[tid - 1]
            rep.evaluations += 1
            rep.traces += 1
            rep.nontrivial.add(c["name"])
            if v != "ok":
                rep.violation(c["name"], f"clause {v} fails: new data {c['new']}", {"source": c["text"], "new": c["new"], "clause": v})
    rep.extra["relayout_cases"] = len(rcases)
    return rep.finish(known)
