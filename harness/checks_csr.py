"""C04: CSR / RoCC lowering of accfg programs (program part) + register-map injectivity (map part)."""
from __future__ import annotations

import random
import traceback

import repo  # noqa: F401
from common import KnownFindings, MachineryError, Report, text_hash
from export_ir import funcs_of
from gen_accfg import Gen
from pairs import image_of, oracle_at, run_pair_batch


def acc_decls(mod, ctx):
    """Syntactic export of the accfg.accelerator ops of a module (+ declared barrier style)."""
    from snaxc.accelerators.rocc import RoCCAccelerator
    from snaxc.accelerators.snax import SNAXPollingBarrier
    from snaxc.dialects import accfg

    out = []
    for op in mod.walk():
        if isinstance(op, accfg.AcceleratorOp):
            name = op.name_prop.string_value()
            info = ctx.get_acc(name)
            rocc = isinstance(info, RoCCAccelerator)

            def tab(items):
                res = []
                for k, v in items:
                    insn, slot = "", 0
                    if rocc and k.endswith(".rs1"):
                        insn, slot = k[:-4], 1
                    elif rocc and k.endswith(".rs2"):
                        insn, slot = k[:-4], 2
                    res.append({"name": k, "addr": v.value.data, "insn": insn, "slot": slot})
                return res
            out.append({"acc": name, "rocc": 1 if rocc else 0, "fields": tab(op.field_items()),
                        "launch": tab(op.launch_field_items()), "barrier": op.barrier.value.data,
                        "clear": [965, 0] if isinstance(info, SNAXPollingBarrier) else []})
    return out


def shift_register_maps(mod, delta):
    from snaxc.dialects import accfg
    for op in list(mod.walk()):
        if isinstance(op, accfg.AcceleratorOp):
            new = accfg.AcceleratorOp(op.name_prop, {k: v.value.data + delta for k, v in op.field_items()},
                                      {k: v.value.data + delta for k, v in op.launch_field_items()}, op.barrier.value.data + delta)
            for k, v in op.attributes.items():
                new.attributes[k] = v
            blk = op.parent_block()
            blk.insert_op_before(new, op)
            blk.erase_op(op)


def acc_specs_for(ctx, rng, names):
    specs = {}
    for n in names:
        op = ctx.get_acc(n).generate_acc_op()
        fields = [k for k, _ in op.field_items()]
        launch = [k for k, _ in op.launch_field_items()]
        if n == "gemmini":
            insns = sorted({f[:-4] for f in fields})
            keep = rng.sample(insns, min(3, len(insns)))
            fields = [f for f in fields if f[:-4] in keep]
        elif len(fields) > 5:
            start = rng.randrange(0, len(fields) - 4)
            fields = fields[start:start + rng.choice([3, 4, 5])]
        specs[n] = {"fields": fields, "launch": launch}
    return specs


def gen_program(seed, k, ctx):
    rng = random.Random(seed * 7919 + k)
    choice = rng.choice([["snax_hwpe_mult"], ["snax_alu"], ["snax_gemmx"], ["gemmini"], ["snax_hwpe_mult", "snax_alu"],
                         ["snax_alu", "snax_gemmx"]])
    specs = acc_specs_for(ctx, rng, choice)
    # RoCC: straight-line programs only (known finding: the partner value of a deduplicated half of an
    # instruction pair is recovered by static inference, which fails or is wrong across control flow)
    depth = 1 if choice == ["gemmini"] else rng.choice([2, 3])
    g = Gen(rng, max_depth=depth, max_inv=rng.choice([3, 4, 5]), acc_specs=specs, effects=True, index_vals=(choice != ["gemmini"]))
    text, argdom, opq = g.program()
    if choice == ["gemmini"]:
        text = text.replace("i32", "i64")
    return text, argdom, opq, choice


def run(pid: str, tier: str, seed: int, selftest=False, replay=None) -> int:
    rep = Report(pid, tier, seed)
    known = KnownFindings()
    n_gen = {"quick": 160, "thorough": 2000}[tier]
    ctx = repo.opt_main().ctx
    cases = []
    import glob, json, os
    sources = []
    for p in sorted(glob.glob(os.path.join(os.path.dirname(os.path.dirname(os.path.abspath(__file__))), "known", "C04", "*.json"))):
        w = json.load(open(p))
        sources.append((f"witness:C04/{os.path.basename(p)}", w["text"], w["argdom"], w["opqdom"], w["accs"], w["overlap"]))
    # exhaustive small scope: every skeleton TLC enumerates (spec/ProgGen.tla), on two CSR accelerators with different barrier styles
    from gen_small import render, tlc_programs
    rg, progs = tlc_programs(pid, 3, 3 if tier == "quick" else 4, 2)
    rep.add_tlc(rg)
    small_accs = []
    for an in ("snax_hwpe_mult", "snax_alu"):
        op = ctx.get_acc(an).generate_acc_op()
        small_accs.append((an, [k for k, _ in op.field_items()][:2], [k for k, _ in op.launch_field_items()]))
    for q, toks in enumerate(progs):
        an, fl, ln = small_accs[q % 2]
        text, argdom, opq = render(toks, an, fl, ln)
        sources.append(("small:" + " ".join(toks) + "|" + an, text, argdom, opq, [an], q % 4 // 2))
    rep.extra["small_scope_programs"] = len(progs)
    # RoCC in a loop, inside the class the lowering handles (outside the two known findings): the loop body re-writes ONE operand of an
    # instruction pair with a value that changes per iteration, the partner operand is configured once in front of the loop and stays;
    # every emitted instruction has to carry the partner's value that is in effect
    gop = ctx.get_acc("gemmini").generate_acc_op()
    gfields = [k for k, _ in gop.field_items()]
    glaunch = [k for k, _ in gop.launch_field_items()]
    pairs2 = sorted({f[:-4] for f in gfields})[:2]
    allf = [p + h for p in pairs2 for h in (".rs1", ".rs2")]
    lnames = ", ".join(f'"{x}"' for x in glaunch)
    ltys = ", ".join(["i64"] * len(glaunch) + ['!accfg.state<"gemmini">'])
    def ginv(state_name, tok, fields_vals, ind):
        args = ", ".join(f'"{f}" = {v} : i64' for f, v in fields_vals)
        return [f'{ind}{state_name} = accfg.setup "gemmini" to ({args}) : !accfg.state<"gemmini">',
                f'{ind}{tok} = "accfg.launch"({", ".join(["%v1"] * len(glaunch) + [state_name])}) <{{param_names = [{lnames}], accelerator = "gemmini"}}> : ({ltys}) -> !accfg.token<"gemmini">',
                f'{ind}"accfg.await"({tok}) : (!accfg.token<"gemmini">) -> ()']
    for wi, w in enumerate(allf):
        for post in (0, 1):
            lines = ["    %c0 = arith.constant 0 : index", "    %c1 = arith.constant 1 : index"]
            lines += ginv("%s0", "%t0", list(zip(allf, ["%v0", "%v1", "%v2", "%v0"])), "    ")
            lines += ["    scf.for %i = %c0 to %n0 step %c1 {", "      %ic = arith.index_cast %i : index to i64", "      %x = arith.addi %v0, %ic : i64"]
            lines += ginv("%s1", "%t1", [(w, "%x")], "      ")
            lines += ["    }"]
            if post:
                other = allf[(wi + 2) % 4]
                lines += ginv("%s2", "%t2", [(other, "%v2")], "    ")
            text = ("builtin.module {\n  func.func @f(%v0: i64, %v1: i64, %v2: i64, %n0: index, %n1: index, %b0: i1, %b1: i1) {\n"
                    + "\n".join(lines) + "\n    func.return\n  }\n}\n")
            sources.append((f"rocc-loop:{w}:post{post}", text, [[11], [12], [13], [0, 1, 2], [0], [0], [0]], [[0]], ["gemmini"], 0))
    for k in range(n_gen):
        text, argdom, opq, accs = gen_program(seed, k, ctx)
        sources.append((f"gen:{seed}:{k}", text, argdom, opq, accs, k % 2))
    njob = 0
    for name, text, argdom, opq, accs, overlap in sources:
        try:
            m = repo.parse(text)
            m.verify()
        except Exception as e:
            raise MachineryError(f"generator produced invalid input {name}: {e}")
        pipe = ",".join(f"insert-accfg-op{{accelerator={a}}}" for a in accs) + ",accfg-trace-states,accfg-dedup"
        if overlap == 1 and accs != ["gemmini"]:
            # (RoCC accelerators are lowered from deduplicated IR only, as in the repository's rocc-dedup flow)
            pipe += ",accfg-config-overlap"
        try:
            repo.run_pipeline(m, pipe)
        except Exception:
            rep.skipped += 1   # upstream passes are judged by C01/C06/C07
            continue
        # the same accelerator in another configuration has another register map: every third module declares its (CSR) accelerators with all
        # addresses moved by a module-specific distance (the declaration in the module is what the lowering has to follow)
        njob += 1
        if njob % 3 == 0 and accs != ["gemmini"]:
            shift_register_maps(m, 16 * (1 + njob % 5))
        low = m.clone()
        try:
            decls = acc_decls(m, ctx)
            repo.run_pipeline(low, "convert-accfg-to-csr")
        except Exception as e:
            rep.evaluations += 1
            rep.violation(name, f"convert-accfg-to-csr raised {type(e).__name__}: {str(e)[:200]}",
                          {"source": text, "pipeline": pipe + ",convert-accfg-to-csr", "before_csr": str(m),
                           "exception": traceback.format_exc(limit=8)})
            continue
        fa, fb = funcs_of(m), funcs_of(low)
        ia = image_of(fa["f"])
        ia["logsetup"] = 1
        ib = image_of(fb["f"])
        cases.append({"name": name, "A": ia, "B": ib, "argdom": argdom, "opqdom": opq, "stdom": [[0, 2], [1, 0, 2]], "text": text,
                      "a_text": str(fa["f"]), "b_text": str(fb["f"]), "extra": {"accdecl": decls}, "accs": accs})
    rep.rule = (f"{n_gen} generated accfg programs over the registered accelerators (snax_hwpe_mult, snax_alu, snax_gemmx: CSR; gemmini: RoCC) "
                "pushed through the real insert-accfg-op, trace, dedup (and overlap for odd k), then the real convert-accfg-to-csr; "
                "TLC runs both images for all oracles (incl. busy/idle status answers) and matches the CSR log against the declared maps "
                "(Csr.tla MatchCsr); non-trivial = case with >=1 setup event")
    CH = 300
    for lo in range(0, len(cases), CH):
        chunk = cases[lo:lo + CH]
        r, per = run_pair_batch(pid, "csr", chunk, tag=f"batch{lo}", coverage=(lo == 0))
        rep.add_tlc(r)
        for tid, vs in per.items():
            c = chunk[tid - 1]
            rep.evaluations += len(vs)
            if all(v[1].startswith("skipA") for v in vs):
                rep.skipped += 1
                rep.extra.setdefault("skip_reasons", {})
                rep.extra["skip_reasons"][vs[0][1]] = rep.extra["skip_reasons"].get(vs[0][1], 0) + 1
                continue
            rep.traces += 1
            if any(v[2] > 0 for v in vs):
                rep.nontrivial.add(text_hash(c["text"]))
            if len(rep.samples) < 2:
                rep.samples.append({"case": c["name"], "accelerators": c["accs"], "before_csr": c["a_text"][:3000],
                                    "after_csr": c["b_text"][:3000], "oracles": len(vs)})
            bad = [v for v in vs if v[1] != "ok" and not v[1].startswith("skipA")]
            if bad:
                oi, verdict, na, nb = sorted(bad)[0]
                rep.violation(c["name"], f"convert-accfg-to-csr: clause {verdict} fails for oracle {oracle_at(c, oi)} "
                              f"({len(bad)}/{len(vs)} oracles)",
                              {"source": c["text"], "before_csr": c["a_text"], "after_csr": c["b_text"],
                               "oracle": oracle_at(c, oi), "clause": verdict, "accdecl": c["extra"]["accdecl"]})
    # ---- gemmx launch with per-channel rescale parameters (more output channels than the array is wide): the accelerator's own launch
    # lowering (SNAXGEMMXAccelerator.lower_acc_launch), driven through the real convert-accfg-to-csr
    import random as _random
    grng = _random.Random(seed * 7 + 3)
    gacc = repo.opt_main().ctx.get_acc("snax_gemmx")
    gop = gacc.generate_acc_op()
    fmap, lmap = {k: v.value.data for k, v in gop.field_items()}, {k: v.value.data for k, v in gop.launch_field_items()}
    gcases = []
    for k in range(12 if tier == "quick" else 150):
        gn = gacc.n
        groups = grng.choice([2, 3, 4])
        mv = groups * grng.choice([1, 2, 5])
        mults = [grng.choice([1, 3, 77, 100, 1234]) + c for c in range(groups * gn)]
        # (shift bytes chosen so that the packed words stay inside the machine's integers: see DESIGN 1.3)
        shifts = [(grng.choice([1, 4, 7, 9, 12]) if c % 4 < 2 else grng.choice([0, 3, 9, 14]) if c % 4 == 2 else 0) for c in range(groups * gn)]
        lv = grng.choice([1, 3])
        text = f"""builtin.module {{
  {str(gop)}
  func.func @f() {{
    %lv = arith.constant {lv} : i5
    %s = accfg.setup "snax_gemmx" to () : !accfg.state<"snax_gemmx">
    %t = "accfg.launch"(%lv, %lv, %s) <{{param_names = ["launch_streamer", "launch_gemmx"], accelerator = "snax_gemmx"}}> {{m = {mv} : i32, mult_vals = array<i32: {", ".join(map(str, mults))}>, shift_vals = array<i32: {", ".join(map(str, shifts))}>}} : (i5, i5, !accfg.state<"snax_gemmx">) -> !accfg.token<"snax_gemmx">
    "accfg.await"(%t) : (!accfg.token<"snax_gemmx">) -> ()
    func.return
  }}
}}
"""
        name = f"gemmx-perchannel:{seed}:{k}:groups{groups}"
        try:
            gm = repo.parse(text)
            gm.verify()
        except Exception as e:
            raise MachineryError(f"invalid gemmx launch module: {e}")
        try:
            repo.run_pipeline(gm, "convert-accfg-to-csr")
            gm.verify()
        except Exception as e:
            rep.evaluations += 1
            rep.violation(name, f"convert-accfg-to-csr raised {type(e).__name__}: {str(e)[:200]}", {"source": text, "exception": traceback.format_exc(limit=6)})
            continue
        gimg = image_of(funcs_of(gm)["f"])
        gl = {"n": gn, "groups": groups, "m": mv, "ls": lv, "lg": lv, "aM": fmap["M"], "aTLB": fmap["temporal_loop_bound"], "aLS": lmap["launch_streamer"],
              "aLG": lmap["launch_gemmx"], "ashift": [fmap[f"shift_{j}"] for j in range((gn + 3) // 4)], "amult": [fmap[f"mult_{c}"] for c in range(gn)],
              "barrier": gop.barrier.value.data, "mults": mults, "shifts": shifts}
        gcases.append({"name": name, "A": gimg, "B": gimg, "argdom": [], "opqdom": [[0]], "stdom": [[0, 2], [1, 0, 2]], "text": text,
                       "b_text": str(funcs_of(gm)["f"])[:6000], "extra": {"gl": gl}})
    if gcases:
        r, per = run_pair_batch(pid, "gemmxlaunch", gcases, tag="gemmxlaunch")
        rep.add_tlc(r)
        rep.extra["gemmx_per_channel_launches"] = len(gcases)
        for tid, vs in per.items():
            c = gcases[tid - 1]
            rep.evaluations += len(vs)
            rep.traces += 1
            bad = [v for v in vs if v[1] != "ok"]
            if bad:
                rep.violation(c["name"], f"gemmx per-channel launch: clause {bad[0][1]} fails ({len(bad)}/{len(vs)} oracles)",
                              {"source": c["text"], "after_csr": c["b_text"], "clause": bad[0][1], "expected": c["extra"]["gl"]})
    # ---- map part: injectivity of the register map of every accelerator x configuration (shared enumeration with C08)
    import checks_regfile
    from objs import run_obj_batch
    maps, _ = checks_regfile.run("C04", tier, seed)
    r, verdicts = run_obj_batch(pid, maps, tag="regmaps")
    rep.add_tlc(r)
    rep.extra["register_maps_checked"] = len(maps)
    for tid, v in verdicts.items():
        c = maps[tid - 1]
        rep.evaluations += 1
        rep.nontrivial.add("map:" + str(c["addrs"]))
        if v != "ok":
            dup = sorted({a for a in c["addrs"] if c["addrs"].count(a) > 1})
            shared = {a: [n for n, x in zip(c["names"], c["addrs"]) if x == a] for a in dup}
            rep.violation(c["name"], f"clause {v} fails: registers shared {shared}", {"names": c["names"], "addrs": c["addrs"]})
    return rep.finish(known)
