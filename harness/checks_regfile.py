"""C08: generated configuration values line up with field names (+ C04 map part: injective register maps)."""
from __future__ import annotations

import random
import traceback

import repo  # noqa: F401
from common import KnownFindings, MachineryError, Report, text_hash
from objs import run_obj_batch
from pairs import image_of, oracle_at, run_pair_batch

def _primes(n):
    out, k = [], 3
    while len(out) < n:
        if all(k % q for q in out if q * q <= k):
            out.append(k)
        k += 2
    return out


# pairwise distinct markers for bounds / strides: enough for the largest configuration with two streaming regions on one accelerator object
PRIMES = _primes(160)


def rand_config(rng, n_streamers=None, allow_opts=True):
    from snaxc.accelerators.streamers.extensions.transpose_extension import TransposeExtension
    from snaxc.accelerators.streamers.streamers import (HasAddressRemap, HasBroadcast, HasChannelMask, Streamer,
                                                         StreamerConfiguration, StreamerFlag, StreamerType)
    n = n_streamers or rng.choice([1, 2, 3, 3, 4, 5])
    streamers = []
    for i in range(n):
        nt = rng.randint(1, 6)
        flags = [rng.choice([StreamerFlag.Normal, StreamerFlag.Normal, StreamerFlag.Irrelevant, StreamerFlag.Reuse]) for _ in range(nt)]
        spat = [rng.choice([2, 4, 8]) for _ in range(rng.choice([1, 1, 2]))]
        opts = []
        if allow_opts:
            for o in (TransposeExtension, HasAddressRemap, HasChannelMask, HasBroadcast):
                if rng.random() < 0.4:
                    opts.append(o())
            rng.shuffle(opts)
        streamers.append(Streamer(StreamerType.Writer if i == n - 1 else StreamerType.Reader, flags, spat, opts))
    return StreamerConfiguration(streamers)


def rand_xdma_config(rng):
    """reader + writer; every subset of extensions and plain options in any order (DmaExt system type)"""
    from snaxc.accelerators.streamers.extensions import (AddExtension, MaxPoolExtension, MemSetExtension, RescaleDownExtension,
                                                          RescaleUpExtension, TransposeExtension)
    from snaxc.accelerators.streamers.streamers import (HasBroadcast, HasByteMask, HasChannelMask, Streamer, StreamerConfiguration,
                                                         StreamerFlag, StreamerSystemType, StreamerType)
    streamers = []
    for i in range(2):
        nt = rng.randint(1, 5)
        flags = [rng.choice([StreamerFlag.Normal, StreamerFlag.Normal, StreamerFlag.Reuse]) for _ in range(nt)]
        opts = [HasChannelMask()]
        for o in (MaxPoolExtension, AddExtension, RescaleDownExtension, RescaleUpExtension, MemSetExtension, TransposeExtension, HasByteMask, HasBroadcast):
            if rng.random() < 0.45:
                opts.append(o())
        rng.shuffle(opts)
        streamers.append(Streamer(StreamerType.Reader if i == 0 else StreamerType.Writer, flags, [8], opts))
    return StreamerConfiguration(streamers, StreamerSystemType.DmaExt)


def xdma_cfg_record(cfg, active_ext, vals):
    """active_ext: name of the extension that executes the region's kernel (None for a plain copy); the FIRST extension of that name
    in the whole configuration is the one the kernel is given to"""
    from snaxc.accelerators.streamers.extensions import StreamerExtension
    from snaxc.accelerators.streamers.streamers import HasByteMask
    out = []
    for s in cfg.streamers:
        exts = []
        for o in s.opts:
            if isinstance(o, StreamerExtension):
                act = 1 if (active_ext is not None and o.name == active_ext) else 0
                exts.append({"name": o.name, "len": o.csr_length, "active": act, "vals": (list(vals) + [0] * o.csr_length)[:max(o.csr_length, 1)]})
        out.append({"temp": [f.value for f in s.temporal_dims], "nspat": len(s.spatial_dims),
                    "bytemask": 1 if any(isinstance(o, HasByteMask) for o in s.opts) else 0, "exts": exts})
    return out


def cfg_record(cfg):
    from snaxc.accelerators.streamers.extensions.transpose_extension import TransposeExtension
    from snaxc.accelerators.streamers.streamers import HasAddressRemap, HasBroadcast, HasChannelMask
    out = []
    for s in cfg.streamers:
        has = lambda cls: 1 if any(isinstance(o, cls) for o in s.opts) else 0
        out.append({"temp": [f.value for f in s.temporal_dims], "nspat": len(s.spatial_dims), "remap": has(HasAddressRemap),
                    "mask": has(HasChannelMask), "transpose": has(TransposeExtension), "bcast": has(HasBroadcast)})
    return out


def rand_patterns(rng, cfg, markers, full=True):
    from snaxc.accelerators.streamers.streamers import StreamerFlag
    pats = []
    for s in cfg.streamers:
        nt = len(s.temporal_dims) if full and rng.random() < 0.6 else rng.randint(1, len(s.temporal_dims))
        ub, ts = [], []
        for d in range(nt):
            flag = s.temporal_dims[d]
            if flag == StreamerFlag.Irrelevant:
                ub.append(markers.pop())
                ts.append(0)
            elif flag == StreamerFlag.Reuse and rng.random() < 0.6:
                ub.append(markers.pop() if rng.random() < 0.8 else 1)
                ts.append(0)
            else:
                ub.append(markers.pop())
                ts.append(8 * markers.pop())
        ss = [8 * markers.pop() if rng.random() < 0.8 else 0 for _ in s.spatial_dims]
        pats.append({"ub": ub, "ts": ts, "ss": ss})
    return pats


def module_text(acc, acc_op_text, pats, zeros, body, nin, prelude=""):
    np_ = len(pats)
    args = ", ".join(f"%p{i} : index" for i in range(np_))
    sp = ", ".join(f"#snax_stream.stride_pattern<ub = {p['ub']}, ts = {p['ts']}, ss = {p['ss']}>" for p in pats)
    operands = ", ".join("%zero" if zeros[i] else f"%p{i}" for i in range(np_))
    tys = ", ".join(["index"] * np_)
    return f"""builtin.module {{
  {acc_op_text}
  func.func @f({args}) {{
    %zero = arith.constant 0 : index
{prelude}
    "snax_stream.streaming_region"({operands}) <{{stride_patterns = [{sp}], accelerator = "{acc.name}", operandSegmentSizes = array<i32: {nin}, {np_ - nin}>}}> ({{
{body}
    }}) : ({tys}) -> ()
    func.return
  }}
}}
"""


def alu_body(n):
    args = ", ".join(f"%s{i} : !dart.stream<i64>" for i in range(n))
    return f"    ^bb0({args}):\n      \"test.termop\"() : () -> ()"


GEMM_BODY_MAC = """    ^bb0(%s0 : !dart.stream<i8>, %s1 : !dart.stream<i8>, %s2 : !dart.stream<i32>):
      %r = "dart.generic"(%s0, %s1) <{library_call = "snax_gemmx"}> ({
      ^bb1(%x : i8, %y : i8, %z : i32):
        %v = kernel.mac %x, %y : i8, i8 -> i32
        dart.yield %v : i32
      }) : (!dart.stream<i8>, !dart.stream<i8>) -> !dart.stream<i32>
      dart.yield %r : !dart.stream<i32>"""


def gemm_body_qmac(zpa, zpb):
    return f"""    ^bb0(%s0 : !dart.stream<i8>, %s1 : !dart.stream<i8>, %s2 : !dart.stream<i32>):
      %r = "dart.generic"(%s0, %s1, %za, %zb) <{{library_call = "snax_gemmx"}}> ({{
      ^bb1(%x : i8, %y : i8, %a : i32, %b : i32, %z : i32):
        %v = kernel.qmac %x, %y zp_lhs : %a zp_rhs : %b : i8, i8, i32, i32 -> i32
        dart.yield %v : i32
      }}) : (!dart.stream<i8>, !dart.stream<i8>, i32, i32) -> !dart.stream<i32>
      dart.yield %r : !dart.stream<i32>"""


def build_case(name, acc, pats, zeros, body, nin, tail, knm, rep, prelude=""):
    from xdsl.dialects import test

    from snaxc.dialects import accfg, snax_stream
    acc_op = acc.generate_acc_op()
    text = module_text(acc, str(acc_op), pats, zeros, body, nin, prelude)
    try:
        m = repo.parse(text)
        m.verify()
    except Exception as e:
        raise MachineryError(f"C08 harness module invalid ({name}): {e}\n{text}")
    sr = [o for o in m.walk() if isinstance(o, snax_stream.StreamingRegionOp)][0]
    fn = [o for o in m.walk() if o.name == "func.func"][0]
    try:
        ops = list(acc.convert_to_acc_ops(sr))
        for o in ops:
            o.verify()
    except Exception as e:
        rep.evaluations += 1
        rep.violation(name, f"convert_to_acc_ops raised {type(e).__name__}: {str(e)[:200]}",
                      {"source": text, "exception": traceback.format_exc(limit=8)})
        return None
    setup = [o for o in ops if isinstance(o, accfg.SetupOp)][0]
    blk = sr.parent_block()
    blk.insert_ops_before(ops, sr)
    blk.insert_op_before(test.TestOp(operands=[*fn.body.block.args, *setup.values]), setup)
    sr.detach()
    sr.erase(safe_erase=False)
    img = image_of(fn)
    declared = list(acc.fields)
    fields_in_op = [k for k, _ in acc_op.field_items()]
    case = {"name": name, "A": img, "B": img, "argdom": [[1000 + 8 * k] for k in range(len(pats))], "opqdom": [[0]],
            "text": text, "after": str(fn),
            "extra": {"cfg": cfg_record(acc.streamer_config.data), "pats": pats, "zeros": [1 if z else 0 for z in zeros],
                      "declared": declared, "setupnames": [p.data for p in setup.param_names.data], "tail": tail, "knm": knm, "xdma": 0}}
    if fields_in_op != declared:
        rep.violation(name + "|accop", f"accfg.accelerator field order {fields_in_op[:6]}.. differs from the accelerator's field list", {"source": text})
    return case


def reg_map_case(name, acc):
    """register map of the real generate_acc_op + reserved status registers (C04 map part)."""
    from snaxc.accelerators.snax import SNAXPollingBarrier, SNAXStreamer
    op = acc.generate_acc_op()
    fields = [(k, v.value.data) for k, v in op.field_items()]
    launch = [(k, v.value.data) for k, v in op.launch_field_items()]
    names = [k for k, _ in fields] + [k for k, _ in launch] + ["barrier"]
    addrs = [a for _, a in fields] + [a for _, a in launch] + [op.barrier.value.data]
    if isinstance(acc, SNAXStreamer):
        for k, a in launch:
            if k in ("launch_streamer", "launch_start"):
                names += ["streamer_busy", "streamer_perf_counter"]
                addrs += [a + 1, a + 2]
    if isinstance(acc, SNAXPollingBarrier):
        names.append("hwpe_clear")
        addrs.append(965)
    return {"kind": "regmap", "name": name, "names": names, "addrs": addrs, "text": name}


def run(pid: str, tier: str, seed: int, selftest=False, replay=None) -> int:
    from snaxc.accelerators.snax_alu import SNAXAluAccelerator
    from snaxc.accelerators.snax_gemmx import SNAXGEMMXAccelerator
    rep = Report(pid, tier, seed)
    known = KnownFindings()
    rng = random.Random(seed)
    quick = tier == "quick"
    cases, maps = [], []

    def markers():
        m = list(PRIMES)
        rng.shuffle(m)
        return m
    # (1) generic streamer part: alu-style accelerator over arbitrary regular configurations
    for k in range(200 if quick else 4000):
        cfg = rand_config(rng) if k > 0 else None
        try:
            acc = SNAXAluAccelerator(cfg) if cfg is not None else SNAXAluAccelerator()
        except Exception as e:
            rep.refused += 1
            continue
        c = acc.streamer_config.data
        # every third accelerator object lowers a second region with other patterns (what the object keeps between two operations matters)
        for nth in range(2 if k % 3 == 0 else 1):
            mk = markers()
            pats = rand_patterns(rng, c, mk)
            zeros = [(rng.random() < 0.15 and i < len(pats) - 1) for i in range(len(pats))]
            tail = [{"name": "alu_mode", "mode": "any", "v": 0}]
            if len(pats[0]["ub"]) == 1:
                tail.append({"name": "loop_bound_alu", "mode": "eq", "v": pats[0]["ub"][0]})
            else:
                tail.append({"name": "loop_bound_alu", "mode": "any", "v": 0})
            name = f"alu-cfg:{seed}:{k}:{acc.streamer_config}" + ("#second" if nth else "")
            case = build_case(name, acc, pats, zeros, alu_body(len(pats)), len(pats) - 1, tail, 0, rep)
            if case:
                cases.append(case)
        name = f"alu-cfg:{seed}:{k}:{acc.streamer_config}"
        if pid == "C04" or True:
            maps.append(reg_map_case(name, acc))
    # (2) gemmx: default configuration and other array sizes, mac / qmac with i32 output
    for k in range(40 if quick else 600):
        n = rng.choice([8, 8, 4, 16, 5, 6, 12, 1, 3])
        m_, k_ = rng.choice([8, 4, 16]), rng.choice([8, 4, 16])
        try:
            acc = SNAXGEMMXAccelerator(m=m_, n=n, k=k_)
        except Exception:
            rep.refused += 1
            continue
        c = acc.streamer_config.data
        mk = markers()
        pats = rand_patterns(rng, c, mk)
        # K*N*M must equal the number of steps of the A stream: make the output pattern consistent with A
        a_ub = [rng.choice([2, 3, 4]) for _ in range(rng.choice([2, 3]))]
        pats[0]["ub"], pats[0]["ts"] = a_ub, [8 * mk.pop() for _ in a_ub]
        out_ub = a_ub[:]
        out_ts = [0] + [8 * mk.pop() for _ in a_ub[1:]]      # innermost = reduction (stride 0)
        pats[4]["ub"], pats[4]["ts"] = out_ub[:3], out_ts[:3]
        pats[3]["ub"], pats[3]["ts"] = pats[4]["ub"], pats[4]["ts"]
        pats[2] = {"ub": [0, 0, 0], "ts": [0, 0, 0], "ss": [0] * len(c.streamers[2].spatial_dims)}
        steps = 1
        for u in a_ub:
            steps *= u
        zpa, zpb = rng.choice([0, 3, -5, 127, -128]), rng.choice([0, -7, 9, 100])
        qmac = rng.random() < 0.6
        sub = (((zpb if qmac else 0) % 256) << 8) | ((zpa if qmac else 0) % 256)
        from math import ceil
        tail = ([{"name": x, "mode": "any", "v": 0} for x in ("K", "N", "M")] + [{"name": "subtractions", "mode": "eq", "v": sub},
                {"name": "csr0", "mode": "eq", "v": 0}, {"name": "csr1", "mode": "eq", "v": 0}]
                + [{"name": f"shift_{i}", "mode": "eq", "v": 0} for i in range(ceil(n / 4))]
                + [{"name": f"mult_{i}", "mode": "eq", "v": 1} for i in range(n)]
                + [{"name": "temporal_loop_bound", "mode": "eq", "v": 0}, {"name": "bypassSIMD", "mode": "eq", "v": 1}])
        zeros = [False, False, False, True, False]
        name = f"gemmx:{seed}:{k}:m{m_}n{n}k{k_}:{'qmac' if qmac else 'mac'}"
        body = gemm_body_qmac(zpa, zpb) if qmac else GEMM_BODY_MAC
        # streaming region operands: inputs A, B, D8(parked), C(zero) ; output D32
        prelude = f"    %za = arith.constant {zpa} : i32\n    %zb = arith.constant {zpb} : i32" if qmac else ""
        case = build_case(name, acc, pats, zeros, body, 4, tail, steps, rep, prelude)
        if case:
            cases.append(case)
        maps.append(reg_map_case(name, acc))
    # (2b) gemmx with the 8-bit output: D8 = rescale(A x B) and D8 = rescale(A x B + C) (three generics: qmac, add, rescale); the SIMD
    # registers carry the parameters of the region's kernel.rescale by meaning (csr0 = min | max | zp_out | zp_in, one byte each;
    # shift_i = four shifts per word, channel 4i in the low byte; mult_c = multiplier of channel c; temporal_loop_bound = M)
    from math import ceil
    for k in range(30 if quick else 500):
        n = rng.choice([8, 8, 4, 16, 5, 12, 3])
        try:
            acc = SNAXGEMMXAccelerator(m=rng.choice([8, 4]), n=n, k=rng.choice([8, 4]))
        except Exception:
            rep.refused += 1
            continue
        c = acc.streamer_config.data
        mk = markers()
        pats = rand_patterns(rng, c, mk)
        a_ub = [rng.choice([2, 3, 4]) for _ in range(rng.choice([2, 3]))]
        pats[0]["ub"], pats[0]["ts"] = a_ub, [8 * mk.pop() for _ in a_ub]
        pats[2]["ub"], pats[2]["ts"] = a_ub[:3], ([0] + [8 * mk.pop() for _ in a_ub[1:]])[:3]      # D8: innermost = reduction (stride 0)
        pats[4] = {"ub": [0, 0, 0], "ts": [0, 0, 0], "ss": [0] * len(c.streamers[4].spatial_dims)}      # D32 unused
        steps, mval = 1, 1
        for u in a_ub:
            steps *= u
        for u in a_ub[1:3]:
            mval *= u
        with_c = rng.random() < 0.6
        per_channel = rng.random() < 0.5
        zin, zout = rng.choice([0, 3, -7, 23]), rng.choice([0, -5, 20, -23])
        # (the machine's integers end at 10^6 - above that values are uninterpreted tokens - so the clamp interval is chosen with a zero
        # high byte and a small second byte; words that still leave the domain are only required to be present)
        lo, hi = rng.choice([(0, 14), (0, 7), (0, 12), (0, 3)])
        # (per-channel parameters for n channels, or for 2-3 times as many: the setup then carries the first n, the rest is programmed at launch)
        nch = n * (rng.choice([1, 1, 2, 3]) if per_channel and n % 4 == 0 else 1)
        shifts = [(rng.choice([1, 4, 7, 9, 12]) if ch % 4 < 2 else rng.choice([0, 3, 9, 14]) if ch % 4 == 2 else 0) for ch in range(nch)] if per_channel else [rng.choice([1, 4, 9])]
        mults = [rng.choice([1, 3, 100, 1234, 77]) for _ in range(nch)] if per_channel else [rng.choice([3, 1234])]
        zpa, zpb = rng.choice([0, 3, -5, 127]), rng.choice([0, -7, 9, 100])
        fs, fm = (shifts if per_channel else shifts * n), (mults if per_channel else mults * n)
        csr0 = ((lo % 256) << 24) | ((hi % 256) << 16) | ((zout % 256) << 8) | (zin % 256)
        sw = [sum(((fs[4 * i + j] if 4 * i + j < n else 0) % 256) << (8 * j) for j in range(4)) for i in range(ceil(n / 4))]
        sub = ((zpb % 256) << 8) | (zpa % 256)
        tail = ([{"name": x, "mode": "any", "v": 0} for x in ("K", "N", "M")] + [{"name": "subtractions", "mode": "eq", "v": sub},
                {"name": "csr0", "mode": "eq", "v": csr0}, {"name": "csr1", "mode": "eq", "v": 0}]
                + [{"name": f"shift_{i}", "mode": "eq" if sw[i] < 10 ** 6 else "any", "v": sw[i]} for i in range(ceil(n / 4))]
                + [{"name": f"mult_{i}", "mode": "eq", "v": fm[i]} for i in range(n)]
                + [{"name": "temporal_loop_bound", "mode": "eq", "v": mval}, {"name": "bypassSIMD", "mode": "eq", "v": 0}])
        assert csr0 < 10 ** 6
        add_c = """      %r1 = "dart.generic"(%r, %s2) <{library_call = "snax_gemmx"}> ({
      ^bb2(%p : i32, %q : i32, %z1 : i32):
        %v1 = kernel.add %p, %q : i32, i32 -> i32
        dart.yield %v1 : i32
      }) : (!dart.stream<i32>, !dart.stream<i32>) -> !dart.stream<i32>
""" if with_c else ""
        last = "%r1" if with_c else "%r"
        body = f"""    ^bb0(%s0 : !dart.stream<i8>, %s1 : !dart.stream<i8>, %s2 : !dart.stream<i32>, %s3 : !dart.stream<i8>):
      %r = "dart.generic"(%s0, %s1, %za, %zb) <{{library_call = "snax_gemmx"}}> ({{
      ^bb1(%x : i8, %y : i8, %a : i32, %b : i32, %z : i32):
        %v = kernel.qmac %x, %y zp_lhs : %a zp_rhs : %b : i8, i8, i32, i32 -> i32
        dart.yield %v : i32
      }}) : (!dart.stream<i8>, !dart.stream<i8>, i32, i32) -> !dart.stream<i32>
{add_c}      %r2 = "dart.generic"({last}) <{{library_call = "snax_gemmx"}}> ({{
      ^bb3(%w0 : i32, %w1 : i8):
        %v2 = kernel.rescale %w0 {{input_zp = {zin} : i32, output_zp = {zout} : i32, multiplier = array<i32: {", ".join(str(x) for x in mults)}>, shift = array<i8: {", ".join(str(x) for x in shifts)}>, min_int = {lo} : i32, max_int = {hi} : i32, double_round = false}} : (i32) -> i8
        dart.yield %v2 : i8
      }}) : (!dart.stream<i32>) -> !dart.stream<i8>
      dart.yield %r2 : !dart.stream<i8>"""
        name = f"gemmx-i8:{seed}:{k}:n{n}:{'gemm' if with_c else 'matmul'}:{'perchannel' if per_channel else 'scalar'}"
        prelude = f"    %za = arith.constant {zpa} : i32\n    %zb = arith.constant {zpb} : i32"
        case = build_case(name, acc, pats, [False, False, False, not with_c, True], body, 5, tail, steps, rep, prelude)
        if case:
            cases.append(case)
    # (3) snax_hwpe_mult: linalg.generic lowering; fields by meaning: nr_iters = 1 iteration, mode = 1, vector_length = a run-time size
    from xdsl.dialects import linalg, test
    from snaxc.dialects import accfg
    hw = repo.opt_main().ctx.get_acc("snax_hwpe_mult")
    hw_text = """builtin.module {
  func.func @f(%A: memref<?xi32>, %B: memref<?xi32>, %D: memref<?xi32>) {
    linalg.generic { indexing_maps = [], iterator_types = ["parallel"], library_call = "snax_hwpe_mult" }
    ins(%A, %B: memref<?xi32>, memref<?xi32>) outs(%D: memref<?xi32>) {
    ^bb0(%a: i32, %b: i32, %d: i32):
      %r0 = arith.muli %a, %b : i32
      linalg.yield %r0 : i32
    }
    func.return
  }
}
"""
    try:
        m = repo.parse(hw_text)
        g = [o for o in m.walk() if isinstance(o, linalg.GenericOp)][0]
        fn = [o for o in m.walk() if o.name == "func.func"][0]
        ops = list(hw.convert_to_acc_ops(g))
        setup = [o for o in ops if isinstance(o, accfg.SetupOp)][0]
        blk = g.parent_block()
        blk.insert_ops_before(ops, g)
        blk.insert_op_before(test.TestOp(operands=[*setup.values]), setup)
        g.detach()
        g.erase(safe_erase=False)
        img = image_of(fn)
        tail = [{"name": "A", "mode": "any", "v": 0}, {"name": "B", "mode": "any", "v": 0}, {"name": "O", "mode": "any", "v": 0},
                {"name": "vector_length", "mode": "ge", "v": 1000000}, {"name": "nr_iters", "mode": "eq", "v": 1}, {"name": "mode", "mode": "eq", "v": 1}]
        cases.append({"name": "snax_hwpe_mult:linalg", "A": img, "B": img, "argdom": [[900001], [900002], [900003]], "opqdom": [[0]],
                      "text": hw_text, "after": str(fn),
                      "extra": {"cfg": [], "pats": [], "zeros": [], "declared": list(hw.fields),
                                "setupnames": [p.data for p in setup.param_names.data], "tail": tail, "knm": 0}})
        maps.append(reg_map_case("registered:snax_hwpe_mult:linalg", hw))
    except MachineryError:
        raise
    except Exception as e:
        rep.violation("snax_hwpe_mult:linalg", f"convert_to_acc_ops raised {type(e).__name__}: {str(e)[:200]}", {"source": hw_text})
    # (4) gemmx rescale-only kernel (i32 -> i8): streamers C (3) and D8 (2) only; one value per declared field
    for n in ([8, 4, 5, 16] if quick else [1, 2, 3, 4, 5, 6, 8, 12, 16]):
        try:
            acc = SNAXGEMMXAccelerator(n=n)
        except Exception:
            continue
        c = acc.streamer_config.data
        mk = markers()
        pats = rand_patterns(rng, c, mk)
        body = """    ^bb0(%s0 : !dart.stream<i32>, %s1 : !dart.stream<i8>):
      %r = "dart.generic"(%s0) <{library_call = "snax_gemmx"}> ({
      ^bb1(%x : i32, %z : i8):
        %v = kernel.rescale %x {input_zp = 3 : i32, output_zp = -5 : i32, multiplier = array<i32: 1234>, shift = array<i8: 9>, min_int = -128 : i32, max_int = 127 : i32, double_round = false} : (i32) -> i8
        dart.yield %v : i8
      }) : (!dart.stream<i32>) -> !dart.stream<i8>
      dart.yield %r : !dart.stream<i8>"""
        from math import ceil
        tail = ([{"name": x, "mode": "any", "v": 0} for x in ("K", "N", "M", "subtractions", "csr0", "csr1")]
                + [{"name": f"shift_{i}", "mode": "any", "v": 0} for i in range(ceil(n / 4))]
                + [{"name": f"mult_{i}", "mode": "eq", "v": 1234} for i in range(n)]
                + [{"name": "temporal_loop_bound", "mode": "any", "v": 0}, {"name": "bypassSIMD", "mode": "eq", "v": 0}])
        pats[0]["ub"] = [rng.choice([2, 3, 4]) for _ in pats[0]["ub"]]
        steps = 1
        for u in pats[0]["ub"]:
            steps *= u
        case = build_case(f"gemmx-rescale:n{n}", acc, pats, [False] * 5, body, 4, tail, steps, rep)
        if case:
            cases.append(case)
    # (5a) xDMA (DmaExt system type) over random configurations (extension and option subsets in any order), plain copies and regions whose
    # kernel is executed by one of the extensions: every register by meaning (XdmaRegs in CsrLayout.tla)
    for k in range(60 if quick else 1500):
        xc = rand_xdma_config(rng) if k > 0 else None
        try:
            from snaxc.accelerators.snax_xdma import SNAXXDMAAccelerator
            xacc = SNAXXDMAAccelerator(xc) if xc is not None else SNAXXDMAAccelerator()
        except Exception as e:
            rep.refused += 1
            continue
        c = xacc.streamer_config.data
        mk = markers()
        pats = rand_patterns(rng, c, mk)
        kern = rng.choice(["copy", "down", "up", "down", "up"])
        izp, ozp, mult, shift = rng.choice([0, 3, -4]), rng.choice([0, -5, 7]), rng.choice([1234, 77, 1 << 20]), rng.choice([9, 0, 31])
        if kern == "copy":
            body = "    ^bb0(%s0 : !dart.stream<i64>, %s1 : !dart.stream<i64>):\n      \"test.termop\"() : () -> ()"
        else:
            ti, to = ("i32", "i8") if kern == "down" else ("i8", "i32")
            body = f"""    ^bb0(%s0 : !dart.stream<{ti}>, %s1 : !dart.stream<{to}>):
      %r = "dart.generic"(%s0) <{{library_call = "snax_xdma"}}> ({{
      ^bb1(%x : {ti}, %z : {to}):
        %v = kernel.rescale %x {{input_zp = {izp} : i32, output_zp = {ozp} : i32, multiplier = array<i32: {mult}>, shift = array<i8: {shift}>, min_int = -128 : i32, max_int = 127 : i32, double_round = false}} : ({ti}) -> {to}
        dart.yield %v : {to}
      }}) : (!dart.stream<{ti}>) -> !dart.stream<{to}>
      dart.yield %r : !dart.stream<{to}>"""
        name = f"xdma-cfg:{seed}:{k}:{kern}:{xacc.streamer_config}"
        case = build_case(name, xacc, pats, [False, False], body, 1, [], 0, rep)
        if case:
            case["extra"]["xdma"] = 1
            case["extra"]["cfg"] = xdma_cfg_record(c, {"down": "rescale_down_ext", "up": "rescale_up_ext"}.get(kern), [izp, mult, ozp, shift])
            cases.append(case)
        maps.append(reg_map_case(name, xacc))
    # (5b) xDMA default configuration: one value per declared field, for a plain copy region (no kernel in the body)
    xdma_cases = []
    try:
        from snaxc.accelerators.snax_xdma import SNAXXDMAAccelerator
        from snaxc.dialects import snax_stream as _ss
        xacc = SNAXXDMAAccelerator()
        xc = xacc.streamer_config.data
        for k in range(3 if quick else 30):
            mk = markers()
            pats = rand_patterns(rng, xc, mk)
            body = "    ^bb0(%s0 : !dart.stream<i64>, %s1 : !dart.stream<i64>):\n      \"test.termop\"() : () -> ()"
            text = module_text(xacc, str(xacc.generate_acc_op()), pats, [False, False], body, 1)
            m = repo.parse(text)
            m.verify()
            sr = [o for o in m.walk() if isinstance(o, _ss.StreamingRegionOp)][0]
            try:
                ops = list(xacc.convert_to_acc_ops(sr))
                setup = [o for o in ops if isinstance(o, accfg.SetupOp)][0]
                setup.verify()
                xdma_cases.append({"kind": "eq", "clause": "OneValuePerField", "name": f"xdma:{k}", "x": [p.data for p in setup.param_names.data],
                                   "y": list(xacc.fields), "text": text})
                xdma_cases.append({"kind": "eq", "clause": "OneValuePerField", "name": f"xdma:{k}:count", "x": len(setup.values), "y": len(xacc.fields), "text": text})
            except Exception as e:
                rep.evaluations += 1
                rep.violation(f"xdma:{k}", f"convert_to_acc_ops raised {type(e).__name__}: {str(e)[:200]}", {"source": text})
    except MachineryError:
        raise
    except Exception as e:
        rep.extra["xdma_note"] = f"xdma harness: {type(e).__name__}: {str(e)[:100]}"
    # other accelerators' register maps
    ctx = repo.opt_main().ctx
    for n in ctx.registered_accelerator_names:
        a = ctx.get_acc(n)
        if hasattr(a, "generate_acc_op") and n != "gemmini":
            maps.append(reg_map_case(f"registered:{n}", a))
    try:
        from snaxc.accelerators.snax_xdma import SNAXXDMAAccelerator
        maps.append(reg_map_case("snax_xdma:default", SNAXXDMAAccelerator()))
    except Exception as e:
        rep.extra["xdma_note"] = f"xdma not constructible here: {type(e).__name__}"

    if pid == "C04":
        return maps, rep   # used by checks_csr for the map part
    rep.rule = ("configurations: default + random regular streamer configurations (1-5 streamers, 1-6 temporal dims n/i/r, 1-2 spatial dims, every option "
                "subset) on the alu-style accelerator, gemmx array sizes m,n,k with mac/qmac kernels; stride patterns carry pairwise distinct prime markers; "
                "the real convert_to_acc_ops output is executed on IRMachine and the setup operand values are compared by TLC with the register file "
                "CsrLayout.tla derives from the field names; non-trivial = distinct configuration")
    CH = 150
    for lo in range(0, len(cases), CH):
        chunk = cases[lo:lo + CH]
        r, per = run_pair_batch(pid, "regfile", chunk, tag=f"batch{lo}")
        rep.add_tlc(r)
        for tid, vs in per.items():
            c = chunk[tid - 1]
            rep.evaluations += len(vs)
            rep.traces += 1
            rep.nontrivial.add(c["name"].split(":", 3)[-1])
            if len(rep.samples) < 3:
                rep.samples.append({"name": c["name"], "declared": c["extra"]["declared"], "patterns": c["extra"]["pats"], "ir": c["after"][:2500]})
            bad = [v for v in vs if v[1] != "ok"]
            if bad:
                rep.violation(c["name"], f"clause {bad[0][1]} fails", {"source": c["text"], "after": c["after"], "extra": c["extra"], "clause": bad[0][1]})
    if xdma_cases:
        r, verdicts = run_obj_batch(pid, xdma_cases, tag="xdma")
        rep.add_tlc(r)
        for tid, v in verdicts.items():
            rep.evaluations += 1
            if v != "ok":
                rep.violation(xdma_cases[tid - 1]["name"], f"clause {v} fails (xDMA)", {"case": xdma_cases[tid - 1]})
    return rep.finish(known)
