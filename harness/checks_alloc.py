"""C11: allocations are big enough (memref-to-snax) and never overlap while live (snax-allocate)."""
from __future__ import annotations

import glob
import os
import random
import traceback

import repo  # noqa: F401
from common import KnownFindings, MachineryError, Report, text_hash
from export_ir import funcs_of
from objs import export_tsl
from pairs import image_of, oracle_at, run_pair_batch

STRUCT = "!llvm.struct<(!llvm.ptr, !llvm.ptr, i32, !llvm.array<1 x i32>, !llvm.array<1 x i32>)>"


def register_memories(ctx):
    from xdsl.dialects.builtin import StringAttr

    from snaxc.util.snax_memory import SnaxMemory
    for name, cap, start in (("M1", 256, 64), ("M2", 96, 1000)):
        try:
            ctx.register_memory(SnaxMemory(StringAttr(name), capacity=cap, start=start))
        except Exception:
            pass


M_GEOMETRIES = {"M1": [(64, 256), (128, 192), (4096, 320)], "M2": [(1000, 96), (2000, 160), (520, 64)]}


def describe_memories(ctx, rng):
    """the cluster description of this case: the memories M1 / M2 with one of several geometries, built the way the configuration parser
    builds them (SnaxMemory.from_config) and registered under the same names as before.  Returns what was DESCRIBED: name -> (start, size)."""
    from snaxc.tools.configs import SnaxMemoryConfig
    from snaxc.util.snax_memory import SnaxMemory
    desc = {}
    for name, geos in M_GEOMETRIES.items():
        start, size = rng.choice(geos)
        ctx.register_memory(SnaxMemory.from_config(SnaxMemoryConfig(name=name, start=start, size=size)))
        desc[name] = (start, size)
    return desc


def gen_placement(rng):
    mems = rng.sample(["Test", "M1", "M2", "L1"], rng.choice([1, 1, 2]))
    nb = rng.randint(2, 6)
    lines = ["    %c0 = arith.constant 0 : index", "    %c1 = arith.constant 1 : index", "    %c2 = arith.constant 2 : index"]
    bufs = []
    tag = [0]
    views = []

    def use(ind, b):
        tag[0] += 1
        lines.append("  " * ind + f'"test.op"({b[0]}) {{tag = {tag[0]} : i32}} : ({b[1]}) -> ()')

    def some_use(ind):
        pool = bufs + views
        if not pool:
            return
        b = rng.choice(pool)
        r = rng.random()
        if r < 0.12 and b in bufs + [v for v in views if v[1].startswith("memref<") and "strided" not in v[1]]:
            # a cast view (same extent): snax.layout_cast / memref.cast of a buffer or of another cast view, used later
            n = len(views)
            size = b[1].split("x")[0].split("<")[1]
            if rng.random() < 0.6:
                vt = f"memref<{size}xi8, #tsl.tsl<[{size}] -> (1)>>"
                lines.append("  " * ind + f'%v{n} = "snax.layout_cast"({b[0]}) : ({b[1]}) -> {vt}')
            else:
                vt = f"memref<{size}xi8>"
                lines.append("  " * ind + f'%v{n} = "memref.cast"({b[0]}) : ({b[1]}) -> {vt}')
            views.append((f"%v{n}", vt))
            return
        if r < 0.25 and b in bufs:
            # a view of the buffer, used later
            n = len(views)
            vt = f"memref<2xi8, strided<[1], offset: {rng.choice([0, 1])}>>"
            off = vt.split("offset: ")[1][0]
            lines.append("  " * ind + f"%v{n} = memref.subview {b[0]}[{off}] [2] [1] : {b[1]} to {vt}")
            views.append((f"%v{n}", vt))
            return
        if r < 0.45:
            lines.append("  " * ind + f"scf.for %i{tag[0]} = %c0 to %n step %c1 {{")
            tag[0] += 1
            use(ind + 1, b)
            if rng.random() < 0.5:
                lines.append("  " * (ind + 1) + f"scf.for %j{tag[0]} = %c0 to %c2 step %c1 {{")
                tag[0] += 1
                use(ind + 2, rng.choice(pool))
                lines.append("  " * (ind + 1) + "}")
            lines.append("  " * ind + "}")
        elif r < 0.6:
            lines.append("  " * ind + "scf.if %p {")
            use(ind + 1, b)
            lines.append("  " * ind + "}")
        else:
            use(ind, b)
    for k in range(nb):
        mem = rng.choice(mems)
        size = rng.choice([4, 8, 10, 13, 16, 20, 32])
        align = rng.choice([1, 2, 4, 8, 10, 16])
        lines.append(f"    %sz{k} = arith.constant {size} : index")
        lines.append(f'    %a{k} = "snax.alloc"(%sz{k}, %sz{k}) <{{memory_space = "{mem}", alignment = {align} : i32}}> : (index, index) -> {STRUCT}')
        mt = f"memref<{size}xi8>"
        lines.append(f'    %m{k} = "builtin.unrealized_conversion_cast"(%a{k}) : ({STRUCT}) -> {mt}')
        bufs.append((f"%m{k}", mt))
        for _ in range(rng.randint(0, 3)):
            some_use(2)
    for _ in range(rng.randint(0, 3)):
        some_use(2)
    lines.append("    func.return")
    return "builtin.module {\n  func.func public @f(%n : index, %p : i1) {\n" + "\n".join(lines) + "\n  }\n}\n"


def places_of(mod, ctx):
    """pointer constants in walk order + attributes of the allocs they replaced (taken from the pre-allocation module)."""
    out = []
    for op in mod.walk():
        if op.name == "llvm.inttoptr":
            src = op.operands[0].owner
            if src.name == "arith.constant":
                out.append(src.properties["value"].value.data)
    return out


def run(pid: str, tier: str, seed: int, selftest=False, replay=None) -> int:
    rep = Report(pid, tier, seed)
    known = KnownFindings()
    rng = random.Random(seed)
    quick = tier == "quick"
    ctx = repo.opt_main().ctx
    register_memories(ctx)
    from snaxc.dialects import snax
    # ---------------- (b) placement
    cases = []
    n = 200 if quick else 4000
    for k in range(n):
        text = gen_placement(rng)
        name = f"gen:{seed}:{k}"
        try:
            src = repo.parse(text)
            src.verify()
        except Exception as e:
            raise MachineryError(f"generator produced invalid input {name}: {e}\n{text}")
        allocs = [o for o in src.walk() if isinstance(o, snax.Alloc)]
        desc = describe_memories(ctx, rng)
        for mode in ("static", "minimalloc", "auto"):
            m = src.clone()
            try:
                repo.run_pipeline(m, f"snax-allocate{{mode={mode}}}")
            except RuntimeError as e:
                if "full" in str(e) or "infeasible" in str(e):
                    rep.refused += 1      # declared refusal: memory is full
                    continue
                rep.violation(f"{name}|{mode}", f"snax-allocate raised RuntimeError: {str(e)[:160]}", {"source": text})
                continue
            except Exception as e:
                rep.evaluations += 1
                rep.violation(f"{name}|{mode}", f"snax-allocate{{mode={mode}}} raised {type(e).__name__}: {str(e)[:160]}",
                              {"source": text, "exception": traceback.format_exc(limit=6)})
                continue
            addrs = places_of(m, ctx)
            if len(addrs) != len(allocs):
                rep.violation(f"{name}|{mode}", f"{len(allocs)} allocations but {len(addrs)} placed pointers", {"source": text, "after": str(m)[:3000]})
                continue
            places = []
            for a, addr in zip(allocs, addrs):
                mname = a.memory_space.data
                mem = ctx.get_memory(mname)
                mstart, mcap = desc.get(mname, (mem.start, mem.capacity))       # what was described, not what the object now says
                places.append({"addr": addr, "size": a.size.op.value.value.data, "align": a.alignment.value.data if a.alignment else 0,
                               "mem": mname, "start": mstart, "capacity": mcap})
            img = image_of(funcs_of(src)["f"])
            cases.append({"name": f"{name}|{mode}", "A": img, "B": img, "argdom": [[0, 1, 2], [0, 1]], "opqdom": [[0]],
                          "extra": {"places": places}, "text": text, "after": str(funcs_of(m)["f"])[:3000], "places": places})
    rep.rule = (f"(b) {n} generated functions with 2-6 top-level snax.alloc ops (sizes/alignments from small sets; memories Test 100B@0, M1 256B@64, M2 96B@1000, "
                "L1) and uses of the buffers and of views of them, straight-line and nested in loops/ifs, through the real snax-allocate in modes static / "
                "minimalloc / auto (solver = first-fit stand-in, correct for the lifetimes it is given); TLC runs the function for all trip counts/branches, "
                "derives every buffer's lifetime (through views and casts) and checks window, alignment and disjointness of simultaneously live buffers; "
                "(a) memref.alloc with tiled-strided layouts (gaps, padding, offsets, dynamic outermost dim) through the real memref-to-snax: the evaluated "
                "size operand covers the highest address of the layout; non-trivial = distinct placement")
    CH = 300
    for lo in range(0, len(cases), CH):
        chunk = cases[lo:lo + CH]
        r, per = run_pair_batch(pid, "placement", chunk, tag=f"place{lo}", coverage=(lo == 0))
        rep.add_tlc(r)
        for tid, vs in per.items():
            c = chunk[tid - 1]
            rep.evaluations += len(vs)
            rep.traces += 1
            rep.nontrivial.add(str([(p["addr"], p["size"]) for p in c["places"]]) + c["name"].split("|")[1])
            if len(rep.samples) < 2:
                rep.samples.append({"case": c["name"], "source": c["text"], "places": c["places"]})
            bad = [v for v in vs if v[1] != "ok" and not v[1].startswith("skipA")]
            if bad:
                oi, verdict, _, _ = sorted(bad)[0]
                rep.violation(c["name"], f"clause {verdict} fails for inputs {oracle_at(c, oi)['args']}: places {[(p['mem'], p['addr'], p['size'], p['align']) for p in c['places']]}",
                              {"source": c["text"], "after": c["after"], "places": c["places"], "clause": verdict})
    # ---------------- (a) allocation size
    scases = []
    prev_size_text = None
    for k in range(150 if quick else 3000):
        rank = rng.choice([1, 2, 2, 3])
        # (element type, byte pitch): widths that are not whole bytes are addressed with the rounded-up pitch everywhere in the compiler
        el, w = rng.choice([("i8", 1), ("i16", 2), ("i32", 4), ("i64", 8), ("i8", 1), ("i32", 4), ("i1", 1), ("i4", 1), ("i12", 2), ("i20", 3)])
        plain = rng.random() < 0.2          # no layout attribute: the default row-major layout of a static shape
        # any subset of the dimensions has a dynamic outermost bound (static steps: fixed pitch); every dynamic dimension gets its own
        # run-time size, the steps are laid out for exactly those sizes (plus gaps), so the run-time layout is a valid one
        dyn_dims = [] if plain else [d for d in range(rank) if rng.random() < 0.3]
        order = list(range(rank))
        rng.shuffle(order)
        levels = {}
        for d in range(rank):
            depth = rng.choice([1, 2, 2])
            levels[d] = [rng.choice([2, 3, 4]) for _ in range(depth)]
        for d, nv in zip(dyn_dims, rng.sample([2, 3, 5, 7], len(dyn_dims))):
            levels[d][0] = nv
        steps, cur = {}, 1
        for (d, j) in [(d, j) for d in order for j in reversed(range(len(levels[d])))]:
            steps[(d, j)] = cur
            cur *= levels[d][j]
            if rng.random() < 0.3:
                cur += rng.choice([1, 2, 5])
        dims_txt, dims_rec, shape, sizes = [], [], [], []
        for d in range(rank):
            bs = levels[d]
            btxt = [("?" if (j == 0 and d in dyn_dims) else str(b)) for j, b in enumerate(bs)]
            p = 1
            for b in bs:
                p *= b
            shape.append(None if d in dyn_dims else p)
            sizes.append(p)
            dims_txt.append("[" + ", ".join(btxt) + "] -> (" + ", ".join(str(steps[(d, j)]) for j in range(len(bs))) + ")")
            dims_rec.append([{"b": bs[j], "s": steps[(d, j)]} for j in range(len(bs))])
        off = rng.choice([0, 0, 3, 8])
        L = {"dims": dims_rec, "off": off}
        shp = "x".join("?" if s is None else str(s) for s in shape)
        lay = ", ".join(dims_txt) + (f", offset: {off}" if off else "")
        mt = f'memref<{shp}x{el}, #tsl.tsl<{lay}>, "L1">'
        if plain:
            st, acc = [0] * rank, 1
            for d in reversed(range(rank)):
                st[d] = acc
                acc *= sizes[d]
            L = {"dims": [[{"b": sizes[d], "s": st[d]}] for d in range(rank)], "off": 0}
            mt = f'memref<{shp}x{el}, "L1">'
        fargs = ", ".join(f"%n{d} : index" for d in dyn_dims)
        adds = "\n".join(f"    %nn{d} = arith.addi %n{d}, %z : index" for d in dyn_dims)
        dynarg = "(" + ", ".join(f"%nn{d}" for d in dyn_dims) + ")"
        text = f"""builtin.module {{
  func.func public @f({fargs}) {{
    %z = arith.constant 0 : index
{adds}
    %m = memref.alloc{dynarg} {{alignment = 64 : i64}} : {mt}
    "test.op"(%m) : ({mt}) -> ()
    func.return
  }}
}}
"""
        name = f"size:{seed}:{k}"
        own = text
        if k % 3 == 0:
            text = repo.add_companion(text, prev_size_text)      # one pass run over two functions; @f is judged
        prev_size_text = own
        try:
            src = repo.parse(text)
            src.verify()
        except Exception as e:
            raise MachineryError(f"generator produced invalid alloc {name}: {e}\n{text}")
        m = src.clone()
        try:
            repo.run_pipeline(m, "memref-to-snax")
        except Exception as e:
            rep.evaluations += 1
            rep.violation(name, f"memref-to-snax raised {type(e).__name__}: {str(e)[:160]} for {mt}", {"source": text})
            continue
        img = image_of(funcs_of(m)["f"])
        scases.append({"name": name, "A": img, "B": img, "argdom": [[sizes[d]] for d in dyn_dims], "opqdom": [[0]],
                       "extra": {"L": L, "w": w}, "text": text, "after": str(funcs_of(m)["f"])[:2500], "type": mt})
    for lo in range(0, len(scases), 400):
        chunk = scases[lo:lo + 400]
        r, per = run_pair_batch(pid, "allocsize", chunk, tag=f"size{lo}")
        rep.add_tlc(r)
        for tid, vs in per.items():
            c = chunk[tid - 1]
            rep.evaluations += len(vs)
            rep.traces += 1
            rep.nontrivial.add(c["type"])
            if len(rep.samples) < 3 and lo == 0:
                rep.samples.append({"case": c["name"], "type": c["type"], "after": c["after"]})
            bad = [v for v in vs if v[1] != "ok"]
            if bad:
                rep.violation(c["name"], f"clause {bad[0][1]} fails for {c['type']} (n = {oracle_at(c, bad[0][0])['args']})",
                              {"source": c["text"], "after": c["after"], "clause": bad[0][1]})
    return rep.finish(known)
