"""C02: the address stream of every operand's streamer equals, step by step, the bytes of the elements
the schedule assigns to that step under the operand's memory layout."""
from __future__ import annotations

import random
import traceback

import numpy as np

import repo  # noqa: F401
from common import KnownFindings, MachineryError, Report
from objs import export_tsl, run_obj_batch


def rowmajor(shape):
    st, cur = [], 1
    for s in reversed(shape):
        st.insert(0, cur)
        cur *= s
    return st


def layout_record(t):
    """memref type -> TSL-style record in elements (syntactic)."""
    from xdsl.dialects.builtin import NoneAttr, StridedLayoutAttr

    from snaxc.dialects.tsl import TiledStridedLayoutAttr
    shape = list(t.get_shape())
    lay = t.layout
    if isinstance(lay, TiledStridedLayoutAttr):
        return export_tsl(lay.data)
    if isinstance(lay, StridedLayoutAttr):
        strides = [s.data for s in lay.strides.data]
        off = lay.offset.data if not isinstance(lay.offset, NoneAttr) else None
        if off is None or any(s is None for s in strides):
            raise MachineryError("dynamic strided layout in a static C02 case")
        return {"dims": [[{"b": b, "s": s}] for b, s in zip(shape, strides)], "off": off}
    if isinstance(lay, NoneAttr):
        return {"dims": [[{"b": b, "s": s}] for b, s in zip(shape, rowmajor(shape))], "off": 0}
    raise MachineryError(f"unknown layout {lay}")


def pointer_root(v):
    """(root memref SSA value | None, constant byte offset) of a pointer value, syntactically."""
    from xdsl.dialects import arith, memref
    from xdsl.ir import OpResult
    off = 0
    while True:
        if not isinstance(v, OpResult):
            return None, off
        op = v.op
        if isinstance(op, memref.ExtractAlignedPointerAsIndexOp):
            return op.source, off
        if isinstance(op, arith.AddiOp):
            a, b = op.lhs, op.rhs
            for x, y in ((a, b), (b, a)):
                if isinstance(y, OpResult) and isinstance(y.op, arith.ConstantOp):
                    off += y.op.value.value.data
                    v = x
                    break
            else:
                return None, off
            continue
        if isinstance(op, arith.ConstantOp):
            return ("const", op.value.value.data), off
        return None, off


def gemmx_text(kind, M, N, K, la, lb, lc, ld):
    """one snax_gemmx operation: kind = gemm (C operand added, i32 output) | matmul_i8 | gemm_i8 (i8 output through a rescale)"""
    has_c, out_el = kind.startswith("gemm"), ("i8" if kind.endswith("_i8") else "i32")
    lays = [la, lb]
    types = [f"memref<{M}x{K}xi8{lays[0]}>", f"memref<{K}x{N}xi8{lays[1]}>"] + ([f"memref<{M}x{N}xi32{lc}>"] if has_c else []) + [f"memref<{M}x{N}x{out_el}{ld}>"]
    args = ["%a", "%b"] + (["%c"] if has_c else []) + ["%d"]
    maps = ["affine_map<(m, n, k) -> (m, k)>", "affine_map<(m, n, k) -> (k, n)>"] + (["affine_map<(m, n, k) -> (m, n)>"] if has_c else []) + ["affine_map<(m, n, k) -> (m, n)>"]
    bargs = ["%sa : !dart.stream<i8>", "%sb : !dart.stream<i8>"] + (["%sc : !dart.stream<i32>"] if has_c else []) + [f"%sd : !dart.stream<{out_el}>"]
    body = ["""    %g0 = "dart.generic"(%sa, %sb, %z, %z) <{library_call = "snax_gemmx"}> ({
^bb1(%x0 : i8, %x1 : i8, %x2 : i32, %x3 : i32, %x4 : i32):
  %q = kernel.qmac %x0, %x1 zp_lhs : %x2 zp_rhs : %x3 : i8, i8, i32, i32 -> i32
  dart.yield %q : i32
}) : (!dart.stream<i8>, !dart.stream<i8>, i32, i32) -> !dart.stream<i32>"""]
    last = "%g0"
    if has_c:
        body.append("""    %g1 = "dart.generic"(%g0, %sc) <{library_call = "snax_gemmx"}> ({
^bb2(%y0 : i32, %y1 : i32, %y2 : i32):
  %s = kernel.add %y0, %y1 : i32, i32 -> i32
  dart.yield %s : i32
}) : (!dart.stream<i32>, !dart.stream<i32>) -> !dart.stream<i32>""")
        last = "%g1"
    if out_el == "i8":
        body.append(f"""    %g2 = "dart.generic"({last}) <{{library_call = "snax_gemmx"}}> ({{
^bb3(%w0 : i32, %w1 : i8):
  %r = "kernel.rescale"(%w0) {{input_zp = 0 : i32, output_zp = 0 : i32, multiplier = array<i32: 3>, shift = array<i8: 4>, min_int = -128 : i32, max_int = 127 : i32, double_round = false}} : (i32) -> i8
  dart.yield %r : i8
}}) : (!dart.stream<i32>) -> !dart.stream<i8>""")
        last = "%g2"
    body.append(f"    dart.yield {last} : !dart.stream<{out_el}>")
    nl = "\n"
    text = f"""builtin.module {{
func.func public @f({", ".join(a + " : " + t for a, t in zip(args, types))}) {{
  %z = arith.constant 0 : i32
  "dart.operation"({", ".join(args)}) <{{patterns = [{", ".join(maps)}], accelerator = "snax_gemmx", operandSegmentSizes = array<i32: {len(args) - 1}, 1>}}> ({{
  ^bb0({", ".join(bargs)}):
{nl.join(body)}
  }}) : ({", ".join(types)}) -> ()
  func.return
}}
}}
"""
    return text


def gen_case(rng, plain=False, fam=None):
    """plain: default (row-major) layouts on every operand and no set-memory-layout"""
    fam = fam or rng.choice(["alu", "alu", "gemm", "gemm", "gemm", "xdma", "simd"])
    if fam == "simd":
        # gemmx used as a rescaling unit only (D8 = rescale(C)): streamers A and B are parked on zero patterns, D32 is off
        shp = rng.choice(["8x8", "16x16", "32x16", "16x24", "8x32"])
        t32, t8 = f"memref<{shp}xi32>", f"memref<{shp}xi8>"
        text = f"""builtin.module {{
func.func public @f(%a : {t32}, %e : {t8}) {{
  "dart.operation"(%a, %e) <{{patterns = [affine_map<(d0, d1) -> (d0, d1)>, affine_map<(d0, d1) -> (d0, d1)>], accelerator = "snax_gemmx", operandSegmentSizes = array<i32: 1, 1>}}> ({{
  ^bb0(%s0 : !dart.stream<i32>, %s1 : !dart.stream<i8>):
    %s3 = "dart.generic"(%s0) <{{library_call = "snax_gemmx"}}> ({{
    ^bb1(%k0 : i32, %k2 : i8):
      %k3 = kernel.rescale %k0 {{input_zp = 1 : i32, output_zp = -2 : i32, multiplier = array<i32: 1234>, shift = array<i8: 9>, min_int = -128 : i32, max_int = 127 : i32, double_round = false}} : (i32) -> i8
      dart.yield %k3 : i8
    }}) : (!dart.stream<i32>) -> !dart.stream<i8>
    dart.yield %s3 : !dart.stream<i8>
  }}) : ({t32}, {t8}) -> ()
  func.return
}}
}}
"""
        return text, "snax_gemmx", True
    if fam == "xdma":
        # the xDMA with a width-changing extension kernel (rescale down i32 -> i8, up i8 -> i32): reader and writer move different numbers
        # of bytes per element
        ti, to = rng.choice([("i32", "i8"), ("i8", "i32")])
        n = rng.choice([64, 128, 256])
        def xl(w):
            r = rng.random()
            return "" if r < 0.6 or plain else f", strided<[1], offset: {rng.choice([0, 64, 128])}>"
        tin, tout = f"memref<{n}x{ti}{xl(ti)}>", f"memref<{n}x{to}{xl(to)}>"
        text = f"""builtin.module {{
func.func public @f(%a : {tin}, %e : {tout}) {{
  "dart.operation"(%a, %e) <{{patterns = [affine_map<(d0) -> (d0)>, affine_map<(d0) -> (d0)>], accelerator = "snax_xdma", operandSegmentSizes = array<i32: 1, 1>}}> ({{
  ^bb0(%s0 : !dart.stream<{ti}>, %s1 : !dart.stream<{to}>):
    %s3 = "dart.generic"(%s0) <{{library_call = "snax_xdma"}}> ({{
    ^bb1(%k0 : {ti}, %k2 : {to}):
      %k3 = kernel.rescale %k0 {{input_zp = 1 : i32, output_zp = -2 : i32, multiplier = array<i32: 1234>, shift = array<i8: 9>, min_int = -128 : i32, max_int = 127 : i32, double_round = false}} : ({ti}) -> {to}
      dart.yield %k3 : {to}
    }}) : (!dart.stream<{ti}>) -> !dart.stream<{to}>
    dart.yield %s3 : !dart.stream<{to}>
  }}) : ({tin}, {tout}) -> ()
  func.return
}}
}}
"""
        return text, "snax_xdma", False
    if fam == "alu" and not plain and rng.random() < 0.2:
        # windows: operands that read / write different positions of one buffer (x[4:20] + x[20:36], the two rows of a matrix, the second
        # half of a buffer from its first half) next to operands with a buffer of their own
        n = rng.choice([4, 8, 16])
        shared = rng.sample(range(3), 2)          # one operand keeps a buffer of its own: the iteration bound is read off its shape
        two_rows = rng.random() < 0.3
        xt = f"memref<2x{n + 8}xi64>" if two_rows else f"memref<{n + 24}xi64>"
        names, types, maps, offs = [], [], [], []
        for i in range(3):
            if i in shared:
                o = rng.choice([o for o in ([0, 4, 8] if two_rows else [0, 4, 16, 20, 24]) if o not in offs or rng.random() < 0.3])
                offs.append(o)
                names.append("%x")
                types.append(xt)
                maps.append(f"(d0) -> ({rng.choice([0, 1])}, d0 + {o})" if two_rows else f"(d0) -> (d0 + {o})")
            else:
                names.append(f"%p{i}")
                types.append(f"memref<{n}xi64>")
                maps.append("(d0) -> (d0)")
        sig = ", ".join(dict.fromkeys(f"{a} : {t}" for a, t in zip(names, types)))
        text = f"""builtin.module {{
func.func public @f({sig}) {{
  "dart.operation"({", ".join(names)}) <{{patterns = [{", ".join(f"affine_map<{m}>" for m in maps)}], accelerator = "snax_alu", operandSegmentSizes = array<i32: 2, 1>}}> ({{
  ^bb0(%0 : !dart.stream<i64>, %1 : !dart.stream<i64>, %2 : !dart.stream<i64>):
    %3 = "dart.generic"(%0, %1) <{{library_call = "snax_alu"}}> ({{
    ^bb1(%x0 : i64, %y0 : i64, %z0 : i64):
      %4 = kernel.add %x0, %y0 : i64, i64 -> i64
      dart.yield %4 : i64
    }}) : (!dart.stream<i64>, !dart.stream<i64>) -> !dart.stream<i64>
    dart.yield %3 : !dart.stream<i64>
  }}) : ({", ".join(types)}) -> ()
  func.return
}}
}}
"""
        return text, "snax_alu", False
    if fam == "alu":
        n = rng.choice([4, 8, 16, 32, 64])
        rank2 = rng.random() < (0.8 if plain else 0.3)
        shape = [rng.choice([2, 4]), n] if rank2 else [n]
        def lay():
            r = rng.random()
            if r < 0.5 or plain:
                return ""
            if r < 0.7:
                st = rowmajor(shape)
                return f", strided<[{', '.join(str(s) for s in st)}], offset: {rng.choice([0, 4, 8])}>"
            if r < 0.85 and not rank2 and n >= 8:
                return f", #tsl.tsl<[{n // 4}, 4] -> ({rng.choice([4, 8])}, 1){rng.choice(['', '', ', offset: 4'])}>"
            return ""
        lays = [lay() for _ in range(3)]
        dims = "d0, d1" if rank2 else "d0"
        if not plain and rng.random() < 0.25:
            # dense operands stored in different dimension orders (each one folds on its own; together they only do when the
            # streamers walk them in the SAME order): mostly refused by the unmodified compiler
            shape = rng.choice([[4, 2, 3], [2, 3, 4], [8, 8], [4, 8], [8, 4], [2, 2, 4], [4, 3, 2], [3, 4], [4, 4, 2]])
            def dense(order):
                st, acc = [0] * len(shape), 1
                for d in order:
                    st[d] = acc
                    acc *= shape[d]
                return st
            orders = [rng.sample(range(len(shape)), len(shape)) for _ in range(2)]
            lays = []
            for _ in range(3):
                st = dense(rng.choice(orders))
                lays.append("" if st == rowmajor(shape) and rng.random() < 0.5 else f", strided<[{', '.join(str(x) for x in st)}]>")
            dims = ", ".join(f"d{i}" for i in range(len(shape)))
        shp = "x".join(str(s) for s in shape)
        ts = [f"memref<{shp}xi64{l}>" for l in lays]
        text = f"""builtin.module {{
func.func public @f(%a : {ts[0]}, %b : {ts[1]}, %c : {ts[2]}) {{
  "dart.operation"(%a, %b, %c) <{{patterns = [affine_map<({dims}) -> ({dims})>, affine_map<({dims}) -> ({dims})>, affine_map<({dims}) -> ({dims})>], accelerator = "snax_alu", operandSegmentSizes = array<i32: 2, 1>}}> ({{
  ^bb0(%0 : !dart.stream<i64>, %1 : !dart.stream<i64>, %2 : !dart.stream<i64>):
    %3 = "dart.generic"(%0, %1) <{{library_call = "snax_alu"}}> ({{
    ^bb1(%x : i64, %y : i64, %z : i64):
      %4 = kernel.add %x, %y : i64, i64 -> i64
      dart.yield %4 : i64
    }}) : (!dart.stream<i64>, !dart.stream<i64>) -> !dart.stream<i64>
    dart.yield %3 : !dart.stream<i64>
  }}) : ({ts[0]}, {ts[1]}, {ts[2]}) -> ()
  func.return
}}
}}
"""
        return text, "snax_alu", rng.random() < 0.3 and not plain
    M, N, K = (rng.choice([8, 16, 24, 32]) for _ in range(3))
    while M * N * K > 8 * 8 * 8 * 36:
        M, N, K = (rng.choice([8, 16, 24]) for _ in range(3))
    shapes = [[M, K], [K, N], [M, N]]
    def lay(shape, el, kinner_first=False):
        """kinner_first: the operand's 2nd index should be contiguous (A: k, C: n); for B the 1st (k)."""
        r = rng.random()
        off = rng.choice(["", "", ", offset: 64"])
        a, b = shape[0] // 8, shape[1] // 8
        if kinner_first:
            # B[k, n]: k contiguous
            if r < 0.45:
                return f", strided<[1, {shape[0]}], offset: {rng.choice([0, 0, 64])}>"
            if r < 0.8:
                return f", #tsl.tsl<[{a}, 8] -> (64, 1), [{b}, 8] -> ({64 * a}, 8){off}>"
            if r < 0.9:
                return ""     # row-major B: the compiler must refuse (or handle) it
            return f", #tsl.tsl<[{a}, 8] -> ({64 * b}, 8), [{b}, 8] -> (64, 1)>"
        if r < 0.4:
            return ""
        if r < 0.6:
            st = rowmajor(shape)
            return f", strided<[{st[0]}, {st[1]}], offset: {rng.choice([0, 64])}>"
        if r < 0.68:
            return f", #tsl.tsl<[{a}, 8] -> ({64 * b}, 8), [{b}, 8] -> (64, 1){off}>"
        if r < 0.78:
            # the same 8x8 tiles stored column of tiles after column of tiles
            return f", #tsl.tsl<[{a}, 8] -> (64, 8), [{b}, 8] -> ({64 * a}, 1){off}>"
        if r < 0.9 and a % 2 == 0:
            # the same function written with three tile levels
            return f", #tsl.tsl<[{a // 2}, 2, 8] -> ({128 * b}, {64 * b}, 8), [{b}, 8] -> (64, 1){off}>"
        return f", strided<[1, {shape[0]}], offset: 0>"
    lays = [lay(shapes[0], 1), lay(shapes[1], 1, True), lay(shapes[2], 4)]
    if plain:
        # what the streamers can express without a chosen layout: A row-major, B column-major, C row-major with 8 columns
        N = 8
        shapes = [[M, K], [K, N], [M, N]]
        lays = ["", f", strided<[1, {K}]>", ""]
    elif rng.random() < 0.3:
        lays = ["", "", ""]
    kind = "matmul" if plain else rng.choice(["matmul", "matmul", "gemm", "gemm", "gemm", "matmul_i8", "gemm_i8"])
    if kind != "matmul":
        # the other kernels of the accelerator: a C operand that is added (its layout is its own, not the output's), and / or an i8 output
        has_c, out_el = kind.startswith("gemm"), ("i8" if kind.endswith("_i8") else "i32")
        lc = lay(shapes[2], 4)
        ld = lays[2] if out_el == "i32" else lay(shapes[2], 1)
        for _ in range(4):
            if has_c and lc == ld and rng.random() < 0.8:
                lc = lay(shapes[2], 4)       # C and the output usually differ in layout
        text = gemmx_text(kind, M, N, K, lays[0], lays[1], lc, ld)
        return text, "snax_gemmx", (all(l == "" for l in lays) and rng.random() < 0.6)
    ts = [f"memref<{M}x{K}xi8{lays[0]}>", f"memref<{K}x{N}xi8{lays[1]}>", f"memref<{M}x{N}xi32{lays[2]}>"]
    text = f"""builtin.module {{
func.func public @f(%a : {ts[0]}, %b : {ts[1]}, %c : {ts[2]}) {{
  "dart.operation"(%a, %b, %c) <{{patterns = [affine_map<(m, n, k) -> (m, k)>, affine_map<(m, n, k) -> (k, n)>, affine_map<(m, n, k) -> (m, n)>], accelerator = "snax_gemmx", operandSegmentSizes = array<i32: 2, 1>}}> ({{
  ^bb0(%0 : !dart.stream<i8>, %1 : !dart.stream<i8>, %2 : !dart.stream<i32>):
    %3 = "dart.generic"(%0, %1) <{{library_call = "snax_gemmx"}}> ({{
    ^bb1(%x : i8, %y : i8, %z : i32):
      %4 = kernel.mac %x, %y : i8, i8 -> i32
      dart.yield %4 : i32
    }}) : (!dart.stream<i8>, !dart.stream<i8>) -> !dart.stream<i32>
    dart.yield %3 : !dart.stream<i32>
  }}) : ({ts[0]}, {ts[1]}, {ts[2]}) -> ()
  func.return
}}
}}
"""
    return text, "snax_gemmx", (all(l == "" for l in lays) and rng.random() < 0.6 and not plain)


REFUSALS = (NotImplementedError, RuntimeError, StopIteration)


def build_cases(text, acc, setlayout, name, rep):
    from snaxc.dialects import dart, snax_stream
    from snaxc.ir.dart.affine_transform import AffineTransform
    from xdsl.utils.exceptions import VerifyException
    ctx = repo.opt_main().ctx
    m = repo.parse(text)
    m.verify()
    pre = f"insert-accfg-op{{accelerator={acc}}},dart-scheduler" + (",set-memory-layout" if setlayout else "")
    try:
        repo.run_pipeline(m, pre)
    except REFUSALS as e:
        rep.refused += 1
        return []
    schs = [o for o in m.walk() if isinstance(o, dart.ScheduleOp)]
    accel = ctx.get_acc(acc)
    info = []
    for sch in schs:
        tmpl = accel.get_template(sch)
        info.append(([b.value.data for b in sch.bounds.data], [AffineTransform.from_affine_map(p.data) for p in sch.patterns.data],
                     [o.type for o in sch.operands], list(sch.operands), tmpl, tmpl.num_dims, list(accel.get_streamers(sch))))
    try:
        repo.run_pipeline(m, "dart-layout-resolution,convert-dart-to-snax-stream")
    except REFUSALS + (AssertionError, VerifyException) as e:
        # the conversion's own `assert spat_size % bound == 0`, or the verifier of the streaming region that snax-opt runs
        # after the pass ("Temporal stride pattern exceeds streamer dimensionality"): no configuration leaves the compiler
        rep.refused += 1
        rep.extra.setdefault("refusal_reasons", {})
        k = f"{type(e).__name__}: {str(e)[:60]}"
        rep.extra["refusal_reasons"][k] = rep.extra["refusal_reasons"].get(k, 0) + 1
        return []
    srs = [o for o in m.walk() if isinstance(o, snax_stream.StreamingRegionOp)]
    if len(srs) != len(schs):
        rep.refused += 1      # some operation of the module was not lowered (declared: left as it is)
        return []
    cases = []
    for opk, (sr, (bounds, pats, types, operands, tmpl, T, strs)) in enumerate(zip(srs, info)):
        # (the xDMA's streamers depend on the extension that executes the kernel; the other accelerators have one fixed configuration)
        cases += cases_of_region(sr, bounds, pats, types, operands, tmpl, T, accel, f"{name}@op{opk}" if len(srs) > 1 else name, text, rep,
                                 strs if acc == "snax_xdma" else None, mover=1 if acc == "snax_xdma" else 0)
    return cases


def cases_of_region(sr, bounds, pats, types, operands, tmpl, T, accel, name, text, rep, streamers=None, mover=0):
    ptrs = list(sr.inputs) + list(sr.outputs)
    sps = sr.stride_patterns.data
    streamers = streamers or accel.streamer_config.data.streamers
    cases = []
    seen_operands = set()
    for i, (ptr, sp) in enumerate(zip(ptrs, sps)):
        root, off = pointer_root(ptr)
        # the layout cast inserted by set-memory-layout: the memref operand of the schedule is the cast result
        # (operands that share a buffer take its streams in operand order)
        cands = [k for k, o in enumerate(operands) if root is o]
        idx = next((k for k in cands if k not in seen_operands), cands[-1] if cands else None)
        if idx is None:
            continue   # synthesised stream (no operand of the scheduled operation)
        if len(sp.upper_bounds.data) > 0 and all(x.data == 0 for x in sp.upper_bounds.data):
            continue   # synthesised, disabled stream that is merely parked on this operand's buffer: harmless
        seen_operands.add(idx)
        t = types[idx]
        rel = [1 if x else 0 for x in tmpl[idx].pattern.A.any(axis=0).tolist()]
        cases.append({"kind": "stream", "name": f"{name}#operand{idx}@streamer{i}", "bounds": bounds, "T": T,
                      "A": [[int(x) for x in r] for r in pats[idx].A], "b": [int(x) for x in pats[idx].b], "rel": rel,
                      "L": layout_record(t), "w": t.element_type.size, "base": off, "tb": [int(x) if x else 0 for x in tmpl[idx].bounds], "mover": mover,
                      "ub": [x.data for x in sp.upper_bounds.data], "ts": [x.data for x in sp.temporal_strides.data],
                      "ss": [x.data for x in sp.spatial_strides.data], "sb": [int(x) for x in streamers[i].spatial_dims],
                      "text": text, "type": str(t), "pattern": str(sp)})
    if len(seen_operands) != len(operands):
        rep.violation(name, f"operands {sorted(set(range(len(operands))) - seen_operands)} of the scheduled operation have no streamer fed from their buffer",
                      {"source": text, "after": str(sr)[:3000]})
    return cases


def run(pid: str, tier: str, seed: int, selftest=False, replay=None) -> int:
    import glob
    import os
    rep = Report(pid, tier, seed)
    known = KnownFindings()
    rng = random.Random(seed)
    ctx0 = repo.opt_main().ctx
    if "snax_xdma" not in ctx0.registered_accelerator_names:
        from snaxc.accelerators.snax_xdma import SNAXXDMAAccelerator
        ctx0.register_accelerator("snax_xdma", lambda: SNAXXDMAAccelerator())   # as snaxc does for a cluster with an xDMA
    n = 600 if tier == "quick" else 5000
    cases = []
    sources = []
    base = os.path.join(os.path.dirname(os.path.dirname(os.path.abspath(__file__))), "known", pid)
    for p in sorted(glob.glob(os.path.join(base, "*.mlir"))):
        txt = open(p).read()
        acc = "snax_gemmx" if "snax_gemmx" in txt else "snax_alu"
        sources.append((f"witness:{pid}/{os.path.basename(p)}", txt, acc, False))
    # systematic: gemm / i8-output kernels with every pair of tile orders (rows of tiles / columns of tiles / rows with an offset) for the
    # C operand and the output, for a few sizes - the operands of one operation do not have to share a layout
    def tl(a, b, order, off=""):
        return (f", #tsl.tsl<[{a}, 8] -> ({64 * b}, 8), [{b}, 8] -> (64, 1){off}>" if order == "rows"
                else f", #tsl.tsl<[{a}, 8] -> (64, 8), [{b}, 8] -> ({64 * a}, 1){off}>")
    for (M, N, K) in ((16, 16, 16), (16, 24, 8), (24, 16, 16)):
        a, b, kk = M // 8, N // 8, K // 8
        la = f", #tsl.tsl<[{a}, 8] -> ({64 * kk}, 8), [{kk}, 8] -> (64, 1)>"
        lb = f", #tsl.tsl<[{kk}, 8] -> (64, 1), [{b}, 8] -> ({64 * kk}, 8)>"
        opts = [tl(a, b, "rows"), tl(a, b, "cols"), tl(a, b, "rows", ", offset: 64")]
        for kind in ("gemm", "gemm_i8", "matmul_i8"):
            for qi, lc in enumerate(opts):
                for qj, ld in enumerate(opts):
                    if kind == "matmul_i8" and qi > 0:
                        continue
                    sources.append((f"sys:{kind}:{M}x{N}x{K}:{qi}{qj}", gemmx_text(kind, M, N, K, la, lb, lc, ld), "snax_gemmx", False))
    prev = {}
    for k in range(n):
        text, acc, setlayout = gen_case(rng)
        sources.append((f"gen:{seed}:{k}", text, acc, setlayout))
        # modules with two operations (one pass run sees both): this one and the previous one of the same accelerator
        if acc in prev and k % 4 == 0:
            ptext, psl = prev[acc]
            body2 = text[text.index("func.func"):text.rindex("}")].replace("@f(", "@g(")
            both = ptext[:ptext.rindex("}")] + body2 + "}\n"
            sources.append((f"gen:{seed}:{k}+prev", both, acc, setlayout and psl))
        prev[acc] = (text, setlayout)
        if k % 8 == 1:
            # two operations with default layouts, same patterns and element types, different shapes
            fam = rng.choice(["alu", "gemm"])
            t1, acc1, _ = gen_case(rng, plain=True, fam=fam)
            t2, _, _ = gen_case(rng, plain=True, fam=fam)
            body2 = t2[t2.index("func.func"):t2.rindex("}")].replace("@f(", "@g(")
            sources.append((f"gen:{seed}:{k}:plainpair", t1[:t1.rindex("}")] + body2 + "}\n", acc1, False))
    for name, text, acc, setlayout in sources:
        try:
            cases += build_cases(text, acc, setlayout, name, rep)
        except MachineryError:
            raise
        except Exception as e:
            rep.evaluations += 1
            rep.violation(name, f"stream lowering raised {type(e).__name__}: {str(e)[:200]}", {"source": text, "exception": traceback.format_exc(limit=8)})
    rep.rule = (f"witnesses + {n} generated dart.operations (snax_alu i64 rank 1-2; snax_gemmx matmul M,N,K in 8/16/24, i8->i32) with layouts none / "
                "strided+offset / transposed / given TSL / compiler-chosen (set-memory-layout) through the real dart-scheduler, dart-layout-resolution, "
                "convert-dart-to-snax-stream; per operand TLC runs the streamer odometer and the schedule odometer in lock step and compares the byte "
                "sets of every temporal step (Streamer.tla vs Schedule.tla+Layout.tla); declared refusals are counted; non-trivial = operand with > 1 step")
    CH = 1500
    for lo in range(0, len(cases), CH):
        chunk = cases[lo:lo + CH]
        r, verdicts = run_obj_batch(pid, chunk, tag=f"batch{lo}", coverage=(lo == 0))
        rep.add_tlc(r)
        for tid, v in verdicts.items():
            c = chunk[tid - 1]
            rep.evaluations += 1
            rep.traces += 1
            if any(u > 1 for u in c["ub"]):
                rep.nontrivial.add(c["type"] + c["pattern"] + str(c["bounds"]))
            if len(rep.samples) < 3 and len(c["ub"]) > 1:
                rep.samples.append({k: c[k] for k in ("name", "bounds", "A", "type", "pattern", "sb")})
            if v != "ok":
                key = c["name"].split("#")[0] if c["name"].startswith("witness:") else c["name"]
                rep.violation(key, f"clause {v} fails: {c['type']} schedule bounds {c['bounds']} A={c['A']} -> {c['pattern']} (ports {c['sb']}, pointer offset {c['base']})",
                              {"source": c["text"], "case": {k: c[k] for k in c if k != "text"}, "clause": v})
    return rep.finish(known)
