"""Syntactic projection of xDSL IR into the JSON "image" consumed by spec/IRMachine.tla.

Nothing is interpreted here: an image is the pre-order list of the operations of one
function with op name, result / operand / block-argument ids, attribute literals,
region extents, result width and xDSL's purity flag.  The only decisions taken in
Python are (1) the flattening order, (2) the *kind* tag, a function of the op name alone
(table KINDS below), and (3) tokenising `llvm.inline_asm` strings.  All meaning lives
in the TLA+ modules.
"""
from __future__ import annotations

import re

from xdsl.dialects import builtin
from xdsl.dialects.builtin import (
    ArrayAttr,
    DenseArrayBase,
    IndexType,
    IntegerAttr,
    IntegerType,
    MemRefType,
    StringAttr,
)
from xdsl.ir import Block, Operation, SSAValue
from xdsl.traits import is_side_effect_free

BIN = {
    "arith.addi", "arith.subi", "arith.muli", "arith.divsi", "arith.divui", "arith.remsi",
    "arith.remui", "arith.andi", "arith.ori", "arith.xori", "arith.shli", "arith.shrsi",
    "arith.shrui", "arith.minsi", "arith.maxsi", "arith.minui", "arith.maxui",
    "arith.floordivsi", "arith.ceildivsi", "arith.ceildivui",
}
CAST = {"arith.index_cast", "arith.extsi", "arith.extui", "arith.trunci", "arith.index_castui"}
KINDS = {
    "arith.constant": "const",
    "arith.cmpi": "cmpi",
    "arith.select": "select",
    "scf.for": "for",
    "scf.if": "if",
    "scf.yield": "yield",
    "scf.while": "while",
    "scf.condition": "cond",
    "func.return": "ret",
    "func.call": "call",
    "llvm.call": "call",
    "accfg.setup": "setup",
    "accfg.launch": "launch",
    "accfg.await": "await",
    "accfg.reset": "reset",
    "llvm.inline_asm": "asm",
    "memref.alloc": "alloc",
    "memref.alloca": "alloc",
    "snax.alloc": "snaxalloc",
    "memref.dealloc": "dealloc",
    "memref.subview": "subview",
    "memref.dim": "dim",
    "memref.copy": "copy",
    "memref.extract_strided_metadata": "metadata",
    "memref.extract_aligned_pointer_as_index": "ptr",
    "snax.cluster_sync_op": "barrier",
    "snax.layout_cast": "viewcast",
    "memref.memory_space_cast": "viewcast",
    "memref.cast": "viewcast",
    "builtin.unrealized_conversion_cast": "ucc",
    "affine.min": "affmin",
    "affine.apply": "affapply",
    "kernel.mul": "kernel", "kernel.add": "kernel", "kernel.mac": "kernel",
    "kernel.qmac": "kernel", "kernel.rescale": "kernel",
    "linalg.yield": "lyield",
}


def type_tag(t) -> tuple[str, int]:
    if isinstance(t, IndexType):
        return "i", 0
    if isinstance(t, IntegerType):
        return "i", t.width.data
    n = getattr(t, "name", "")
    if n == "accfg.state":
        return "s", 0
    if n == "accfg.token":
        return "t", 0
    if isinstance(t, MemRefType):
        return "m", 0
    if n in ("builtin.f32", "builtin.f64", "builtin.f16"):
        return "f", 0
    return "o", 0


def _attr_lit(a) -> str:
    return str(a)


def tokenize_asm(op) -> tuple[list[str], list[int]]:
    """llvm.inline_asm -> (string tokens, int tokens).  `csrw 960, $0` -> (["csrw"], [960])."""
    s = op.properties["asm_string"].data if "asm_string" in op.properties else ""
    s = s.strip()
    m = re.match(r"csrw\s+(\d+)\s*,\s*\$0$", s)
    if m:
        return ["csrw"], [int(m.group(1))]
    m = re.match(r"csrr\s+\$0\s*,\s*(\d+)$", s)
    if m:
        return ["csrr"], [int(m.group(1))]
    m = re.match(r"csrw\s+(0x[0-9a-fA-F]+|\d+)\s*,\s*\$0$", s)
    if m:
        return ["csrw"], [int(m.group(1), 0)]
    m = re.match(r"csrr\s+\$0\s*,\s*(0x[0-9a-fA-F]+|\d+)$", s)
    if m:
        return ["csrr"], [int(m.group(1), 0)]
    if re.match(r"csrw\s+\$0\s*,\s*\$1$", s):
        return ["csrw2"], []
    if re.match(r"csrr\s+\$0\s*,\s*\$1$", s):
        return ["csrr2"], []
    m = re.match(r"\.insn r CUSTOM_(\d), (0x[0-9a-fA-F]+|\d+), (0x[0-9a-fA-F]+|\d+)\s*,\s*x0,\s*\$0,\s*\$1$", s)
    if m:
        return ["insn"], [int(m.group(1)), int(m.group(2), 0), int(m.group(3), 0)]
    if s == "nop":
        return ["nop"], []
    if re.match(r"csrr\s+zero\s*,\s*mcycle$", s):
        return ["mcycle"], []
    m = re.match(r"\.insn r CUSTOM_(\d), (0x[0-9a-fA-F]+|\d+), (0x[0-9a-fA-F]+|\d+),\s*\$0,\s*\$1,\s*\$2$", s)
    if m:
        return ["insn_rd"], [int(m.group(1)), int(m.group(2), 0), int(m.group(3), 0)]
    m = re.match(r"\.insn r CUSTOM_(\d), (0x[0-9a-fA-F]+|\d+), (0x[0-9a-fA-F]+|\d+),\s*x0,\s*\$0,\s*\$1$", s)
    if m:
        return ["insn"], [int(m.group(1)), int(m.group(2), 0), int(m.group(3), 0)]
    return ["asm:" + s], []


class Exporter:
    """Exports one function (or any single-block region holder) to an image."""

    def __init__(self, width_map=None):
        self.ids: dict[SSAValue, int] = {}
        self.ty: list[str] = []
        self.w: list[int] = []
        self.msp: list[str] = []
        self.ops: list[dict] = []
        self.width_map = width_map or (lambda w: w)
        self.opmap: dict[Operation, int] = {}

    def vid(self, v: SSAValue) -> int:
        if v not in self.ids:
            self.ids[v] = len(self.ids) + 1
            tag, w = type_tag(v.type)
            self.ty.append(tag)
            self.w.append(self.width_map(w))
            ms = getattr(v.type, "memory_space", None)
            self.msp.append(ms.data if ms is not None and hasattr(ms, "data") and isinstance(ms.data, str) else "")
        return self.ids[v]

    def rec(self, op: Operation) -> dict:
        name = op.name
        if name == "builtin.unregistered":
            name = op.attributes["op_name__"].data if "op_name__" in op.attributes else getattr(op, "op_name").data
        kind = KINDS.get(name)
        if kind is None:
            if name in BIN:
                kind = "bin"
            elif name in CAST:
                kind = "cast"
        iv: list[int] = []
        sv: list[str] = []
        fx = ""
        eff = op.attributes.get("accfg.effects")
        if eff is not None:
            fx = str(eff.data.value) if hasattr(eff, "data") and hasattr(eff.data, "value") else str(eff)
        operands = [self.vid(o) for o in op.operands]
        if kind == "const":
            val = op.properties.get("value")
            if isinstance(val, IntegerAttr):
                iv = [val.value.data]
                if isinstance(val.type, IntegerType) and val.type.width.data == 1:
                    iv = [1 if val.value.data != 0 else 0]
            else:
                kind = None
                sv = [_attr_lit(val)]
                from xdsl.dialects.builtin import DenseIntOrFPElementsAttr, MemRefType
                if isinstance(val, DenseIntOrFPElementsAttr) and isinstance(op.results[0].type, MemRefType):
                    # a constant BUFFER: its identity is its logical content (shape + multiset of values), not the byte order of one layout
                    # (whether re-laid-out bytes hold the logical values at the right positions is judged separately: ObjCheck relayout)
                    try:
                        vals = sorted(int(x) for x in val.get_values())
                    except Exception:
                        vals = []
                    sv = [f"dense-buffer:{list(op.results[0].type.get_shape())}:{op.results[0].type.element_type}:{vals}"]
        elif kind == "cmpi":
            iv = [op.properties["predicate"].value.data]
        elif kind == "cast":
            src = op.operands[0].type
            iv = [self.width_map(src.width.data) if isinstance(src, IntegerType) else 0]
        elif kind == "setup":
            sv = [op.properties["accelerator"].data] + [p.data for p in op.properties["param_names"].data]
            iv = [1 if len(op.operands) > len(op.properties["param_names"].data) else 0]
        elif kind == "launch":
            sv = [op.properties["accelerator"].data] + [p.data for p in op.properties["param_names"].data]
        elif kind == "await":
            sv = [op.operands[0].type.accelerator.data]
        elif kind == "reset":
            sv = [op.operands[0].type.accelerator.data]
        elif kind == "call":
            callee = op.properties.get("callee")
            sv = [callee.string_value() if callee is not None and hasattr(callee, "string_value") else str(callee)]
        elif kind == "asm":
            sv, iv = tokenize_asm(op)
        elif kind == "snaxalloc":
            self.nsites = getattr(self, "nsites", 0) + 1
            iv = [self.nsites]
            ms = op.properties.get("memory_space")
            al = op.properties.get("alignment")
            sv = [ms.data if ms is not None and hasattr(ms, "data") else "", str(al.value.data) if al is not None and hasattr(al, "value") else "0"]
        elif kind == "kernel":
            sv = [name]
            if name == "kernel.rescale":
                g = lambda k: op.attributes.get(k) if k in op.attributes else op.properties.get(k)
                def ival(a):
                    if hasattr(a, "value"):
                        d = a.value.data
                        return int(d) if not isinstance(d, bool) else int(d)
                    return int(a.get_values()[0])
                iv = [ival(g("input_zp")), ival(g("output_zp")), ival(g("multiplier")), ival(g("shift")), ival(g("min_int")), ival(g("max_int"))]
        elif kind == "alloc":
            shp = list(op.results[0].type.get_shape())
            iv = [(-1 if d < 0 else d) for d in shp]
            sv = [str(op.results[0].type)]
        elif kind == "subview":
            DYN = -9223372036854775808
            def vals(name):
                return [(-777777 if v == DYN else v) for v in op.properties[name].get_values()]
            iv = vals("static_offsets") + vals("static_sizes") + vals("static_strides")
            sv = [str(len(vals("static_sizes")))]
        if kind in ("copy", "dealloc", "barrier") and not sv:
            lits = [f"{k}={_attr_lit(v)}" for k, v in sorted(op.properties.items())]
            lits += [f"{k}={_attr_lit(v)}" for k, v in sorted(op.attributes.items()) if k != "accfg.effects"]
            sv = [";".join(lits)]
        if kind is None:
            pure = bool(is_side_effect_free(op)) and not op.regions
            kind = "pure" if pure else "eff"
            if op.regions:
                kind = "region"
            if not sv:
                lits = [f"{k}={_attr_lit(v)}" for k, v in sorted(op.properties.items())]
                lits += [f"{k}={_attr_lit(v)}" for k, v in sorted(op.attributes.items()) if k != "accfg.effects"]
                sv = [";".join(lits)]
            if kind == "region":
                # syntactic hints for the dispatch class: accelerator attribute, first nested kernel op and its operand types
                acc = op.properties.get("accelerator") or op.attributes.get("accelerator")
                accn = acc.data if acc is not None and hasattr(acc, "data") else ""
                kname, ktypes = "", ""
                for inner in op.walk():
                    if inner is not op and inner.name.startswith("kernel."):
                        kname = inner.name
                        ktypes = ",".join(str(o.type) for o in inner.operands) + "->" + ",".join(str(r.type) for r in inner.results)
                        break
                sv = [sv[0], accn, kname, ktypes]
                seg = op.properties.get("operandSegmentSizes")
                if seg is not None:
                    try:
                        iv = [int(x) for x in seg.get_values()]
                    except Exception:
                        iv = []
        tag, w = ("", 0)
        if op.results:
            tag, w = type_tag(op.results[0].type)
        return {
            "k": kind, "n": name, "r": [self.vid(r) for r in op.results], "a": operands,
            "iv": iv, "sv": sv, "end": 0, "mid": 0, "ba": [], "ba2": [], "w": self.width_map(w), "fx": fx,
            "pure": bool(is_side_effect_free(op)),
        }

    def walk_block(self, block: Block, head: int):
        for op in block.ops:
            rec = self.rec(op)
            self.ops.append(rec)
            me = len(self.ops)
            self.opmap[op] = me
            if rec["k"] in ("yield", "lyield", "cond"):
                rec["mid"] = head
            if op.regions:
                first = True
                for region in op.regions:
                    if len(region.blocks) > 1:
                        rec["k"] = "region"
                    for b in region.blocks:
                        if first:
                            rec["ba"] = [self.vid(a) for a in b.args]
                            first = False
                        elif rec["k"] == "if":
                            rec["mid"] = len(self.ops) + 1
                        elif rec["k"] == "while":
                            rec["mid"] = len(self.ops) + 1
                            rec["ba2"] = [self.vid(a) for a in b.args]
                        self.walk_block(b, me)
                    if not region.blocks and rec["k"] == "if":
                        rec["mid"] = len(self.ops) + 1
                rec["end"] = len(self.ops)

    def export_func(self, fn) -> dict:
        block = fn.regions[0].blocks[0]
        args = [self.vid(a) for a in block.args]
        self.walk_block(block, 0)
        name = fn.properties["sym_name"].data if "sym_name" in fn.properties else fn.name
        return {
            "name": name, "nv": max(len(self.ids), 1), "ops": self.ops, "args": args,
            "ty": self.ty or ["o"], "w": self.w or [0], "msp": self.msp or [""],
        }


def export_body(block, width_map=None) -> dict:
    """Exports a single block (e.g. a linalg.generic body) as a function image: block args are the arguments,
    constants defined outside the block and used inside are re-materialised first (syntactic closure)."""
    e = Exporter(width_map)
    args = [e.vid(a) for a in block.args]
    inside = {r for op in block.walk() for r in op.results}
    done = set()
    for op in block.walk():
        for o in op.operands:
            if o not in inside and o not in block.args and o not in done:
                owner = o.owner
                if isinstance(owner, Operation) and owner.name == "arith.constant":
                    e.ops.append(e.rec(owner))
                    done.add(o)
    e.walk_block(block, 0)
    return {"name": "body", "nv": max(len(e.ids), 1), "ops": e.ops, "args": args, "ty": e.ty or ["o"], "w": e.w or [0], "msp": e.msp or [""]}


def export_func(fn, width_map=None) -> dict:
    return Exporter(width_map).export_func(fn)


def export_with_ids(fn, width_map=None):
    e = Exporter(width_map)
    img = e.export_func(fn)
    return img, e


def funcs_of(mod) -> dict:
    out = {}
    for op in mod.walk():
        if op.name == "func.func" and op.regions and op.regions[0].blocks:
            out[op.properties["sym_name"].data] = op
    return out
