"""C03 (iteration space preserved) and C16 (returned schedules fit the template).
 (1) design check of Schedule.tla (exhaustive MC_Schedule.cfg, thorough tier / cached note in quick),
 (2) spec -> code: TLC-simulated behaviours of MC_Schedule replayed on the real Schedule objects,
 (3) code -> spec: traces of the real scheduler_backtrack validated by ObjCheck (SchedTrace),
 (4) template matcher equivalence (C16)."""
from __future__ import annotations

import functools
import itertools
import json
import os
import random
import re

import numpy as np

import repo  # noqa: F401
from common import WORK, KnownFindings, MachineryError, Report, run_tlc
from objs import run_obj_batch

C03_CLAUSES = {"TraceStep", "TraceEndsInResult", "IterSpace", "ApiResult"}
C16_CLAUSES = {"FitsTemplate", "PureOutputStationary", "MemoryFlexible", "MatchesIffSameSubspace"}


def exp_sched(s):
    return {"bounds": [int(b) for b in s[0].bounds],
            "pats": [{"A": [[int(x) for x in row] for row in p.pattern.A], "b": [int(x) for x in p.pattern.b]} for p in s]}


def exp_template(t):
    return {"bounds": [int(b) if b else 0 for b in t[0].bounds],
            "pats": [{"A": [[int(x) for x in row] for row in p.pattern.A], "b": [int(x) for x in p.pattern.b]} for p in t]}


def mk_sched(rec):
    from snaxc.ir.dart.access_pattern import Schedule, SchedulePattern
    from snaxc.ir.dart.affine_transform import AffineTransform
    nd = len(rec["bounds"])
    return Schedule(SchedulePattern(rec["bounds"], AffineTransform(np.array(p["A"], dtype=np.int_).reshape(len(p["A"]), nd),
                                                                   np.array(p["b"], dtype=np.int_))) for p in rec["pats"])


def mk_template(bounds, mats):
    from snaxc.ir.dart.access_pattern import Template, TemplatePattern
    from snaxc.ir.dart.affine_transform import AffineTransform
    return Template(TemplatePattern(bounds, AffineTransform(np.array(m, dtype=np.int_), np.zeros(len(m), dtype=np.int_))) for m in mats)


# ---------------------------------------------------------------- generators
def random_schedule(rng, nd=None, nops=None, lo=-1, hi=3):
    nd = nd or rng.choice([1, 2, 2, 3, 3, 4])
    nops = nops or rng.choice([1, 2, 3])
    bounds = []
    total = 1
    for _ in range(nd):
        b = rng.choice([1, 2, 3, 4, 6, 8])
        while total * b > 64:
            b = rng.choice([1, 2])
        total *= b
        bounds.append(b)
    pats = []
    for _ in range(nops):
        rows = rng.choice([1, 2, 2])
        pats.append({"A": [[rng.randint(lo, hi) for _ in range(nd)] for _ in range(rows)], "b": [rng.choice([0, 0, 1, 2]) for _ in range(rows)]})
    return {"bounds": bounds, "pats": pats}


def scheduler_inputs(rng, n):
    """(template, schedule record, element sizes) families that the scheduler can map."""
    out = []
    alu = lambda k: ((4,), [[[1]]] * k)
    gmats = [[[1, 0, 0], [0, 0, 1]], [[0, 0, 1], [0, 1, 0]], [[1, 0, 0], [0, 1, 0]]]
    # small stand-ins of the 8x8x8 GEMM array: same template patterns, bounds 2/4 so that boxes stay small
    gemm = (rng.choice([(2, 2, 2), (4, 2, 2), (2, 4, 2)]), gmats)
    gemm_unb = ((None, 2, 2), gmats)
    for _ in range(n):
        fam = rng.choice(["ew1", "ew2", "matmul", "matmul", "bmatmul", "gemmbias", "dot", "conv", "bcast", "memflex", "random"])
        force_checks = None
        if fam == "ew1":
            k = rng.choice([2, 3])
            n0 = rng.choice([4, 8, 12, 16, 6, 3, 64, 2, 1])
            rec = {"bounds": [n0], "pats": [{"A": [[1]], "b": [0]}] * k}
            t = alu(k)
            sizes = [8] * k
        elif fam == "ew2":
            k = 3
            a, b = rng.choice([2, 4, 8, 3]), rng.choice([4, 8, 16, 5, 1])
            if a * b > 64:
                b = 4
            rec = {"bounds": [a, b], "pats": [{"A": [[1, 0], [0, 1]], "b": [0, 0]}] * k}
            t = ((4,), [[[0], [1]]] * 3) if rng.random() < 0.5 else ((4,), [[[1]]] * 3)
            sizes = [rng.choice([1, 8])] * 3
        elif fam == "matmul":
            M, N, K = (rng.choice([2, 4, 6, 8, 3]) for _ in range(3))
            while M * N * K > 128:
                M, N, K = (rng.choice([2, 4, 6, 3]) for _ in range(3))
            rec = {"bounds": [M, N, K], "pats": [{"A": [[1, 0, 0], [0, 0, 1]], "b": [0, 0]}, {"A": [[0, 0, 1], [0, 1, 0]], "b": [0, 0]},
                                                 {"A": [[1, 0, 0], [0, 1, 0]], "b": [0, 0]}]}
            t = gemm if rng.random() < 0.7 else gemm_unb
            sizes = [1, 1, 4]
        elif fam == "bmatmul":
            # batched: operands of higher rank than the template's (b, m, k) x (k, n) -> (b, m, n), or all three batched
            Bb, M, N, K = rng.choice([2, 3]), rng.choice([2, 4]), rng.choice([2, 4]), rng.choice([2, 4])
            bw = rng.random() < 0.4
            rec = {"bounds": [Bb, M, N, K], "pats": [{"A": [[1, 0, 0, 0], [0, 1, 0, 0], [0, 0, 0, 1]], "b": [0, 0, 0]},
                                                     ({"A": [[1, 0, 0, 0], [0, 0, 0, 1], [0, 0, 1, 0]], "b": [0, 0, 0]} if bw else {"A": [[0, 0, 0, 1], [0, 0, 1, 0]], "b": [0, 0]}),
                                                     {"A": [[1, 0, 0, 0], [0, 1, 0, 0], [0, 0, 1, 0]], "b": [0, 0, 0]}]}
            t = gemm if rng.random() < 0.7 else gemm_unb
            sizes = [1, 1, 4]
        elif fam == "gemmbias":
            # four operands on a three-dimensional template (gemm with a bias operand): more operands than template dims
            M, N, K = (rng.choice([2, 4, 8]) for _ in range(3))
            while M * N * K > 128:
                M, N, K = (rng.choice([2, 4]) for _ in range(3))
            mats = [[[1, 0, 0], [0, 0, 1]], [[0, 0, 1], [0, 1, 0]], [[1, 0, 0], [0, 1, 0]], [[1, 0, 0], [0, 1, 0]]]
            rec = {"bounds": [M, N, K], "pats": [{"A": [list(r) for r in m], "b": [0, 0]} for m in mats]}
            t = (rng.choice([(2, 2, 2), (None, 2, 2)]), mats)
            sizes = [1, 1, 4, 4]
        elif fam == "dot":
            # a reduction on a one-dimensional template with three operands: out[i] += x[i, k] * y[k, i]-like, the template takes k or i
            I, K = rng.choice([2, 4, 8]), rng.choice([2, 4, 8])
            red = rng.random() < 0.5
            rec = {"bounds": [I, K], "pats": [{"A": [[1, 0], [0, 1]], "b": [0, 0]}, {"A": [[0, 1]], "b": [0]}, {"A": [[1, 0]], "b": [0]}]}
            t = ((rng.choice([2, 4]),), [[[0], [1]], [[1]], [[0]]]) if red else ((rng.choice([2, 4]),), [[[1], [0]], [[0]], [[1]]])
            sizes = [1, 1, 4]
        elif fam == "memflex":
            # memory flexibility needs ONE operand dimension that is spatially unrolled and not accessed fine-grained over time; here one
            # row is coarse in time but not unrolled and the other row is unrolled but fine-grained once the scheduler has tiled it: a
            # schedule that passes the check has to have both in the same row
            w = rng.choice([1, 2, 4])
            coarse = (8 // w) * rng.choice([1, 2])
            outer, inner = rng.choice([2, 3]), rng.choice([8, 16])
            rows = [[coarse, 0], [0, 1]]
            if rng.random() < 0.5:
                rows.reverse()
            k = rng.choice([2, 3])
            rec = {"bounds": [outer, inner], "pats": [{"A": [list(r) for r in rows], "b": [0, 0]} for _ in range(k)]}
            t = ((4,), [[[0], [1]] if rows[1] == [0, 1] else [[1], [0]]] * k)
            sizes = [w] * k
            force_checks = rng.choice([["mem"], ["pos", "mem"]])
        elif fam == "conv":
            OX, FX, C = rng.choice([2, 4]), rng.choice([1, 3]), rng.choice([2, 4])
            Kk = rng.choice([2, 4])
            # (ox, k, fx, c): I[ox+fx, c], W[fx*?..] simplified 2-result patterns
            rec = {"bounds": [OX, Kk, FX, C], "pats": [{"A": [[1, 0, 1, 0], [0, 0, 0, 1]], "b": [0, 0]},
                                                       {"A": [[0, 0, 8, 1], [0, 1, 0, 0]], "b": [0, 0]},
                                                       {"A": [[1, 0, 0, 0], [0, 1, 0, 0]], "b": [0, 0]}]}
            t = gemm
            sizes = [1, 1, 4]
        elif fam == "bcast":
            a, b = rng.choice([4, 8, 16]), rng.choice([2, 3, 4])
            rec = {"bounds": [b, a], "pats": [{"A": [[0, 1]], "b": [0]}, {"A": [[4, 1]] if a == 4 else [[a, 1]], "b": [0]}]}
            t = ((4,), [[[1]], [[1]]])
            sizes = [8, 8]
        else:
            rec = random_schedule(rng, nops=2)
            nd = len(rec["bounds"])
            tn = rng.choice([1, min(2, nd)])
            t = (tuple(rng.choice([None, 2, 4]) for _ in range(tn)),
                 [[[rng.randint(-1, 2) for _ in range(tn)] for _ in range(len(p["A"]))] for p in rec["pats"]])
            sizes = [rng.choice([1, 2, 4, 8]) for _ in rec["pats"]]
        # random permutation of the dimension order
        nd = len(rec["bounds"])
        perm = list(range(nd))
        rng.shuffle(perm)
        rec = {"bounds": [rec["bounds"][j] for j in perm],
               "pats": [{"A": [[row[j] for j in perm] for row in p["A"]], "b": list(p["b"])} for p in rec["pats"]]}
        if rng.random() < 0.35:
            # constant offsets (shifted windows): operands with the same matrix still differ
            for p in rec["pats"]:
                p["b"] = [rng.choice([0, 0, 1, 2]) for _ in p["b"]]
        checks = force_checks if force_checks is not None else rng.choice([[], ["pos"], ["mem"], ["pos", "mem"]])
        out.append((t, rec, sizes, checks))
    return out


# ---------------------------------------------------------------- recording the real scheduler
def record_scheduler(template, schedule, checks, sizes, cap=64):
    from snaxc.ir.dart import scheduler as sch
    from snaxc.ir.dart.access_pattern import Schedule

    orig_rotate, orig_tile = Schedule.rotate, Schedule.tile_dim

    def rotate(self, dim):
        r = orig_rotate(self, dim)
        r._verif_parent, r._verif_step = self, ("rotate", int(dim), 0)
        return r

    def tile_dim(self, dim, tb):
        r = orig_tile(self, dim, tb)
        r._verif_parent, r._verif_step = self, ("tile", int(dim) + 1, int(tb))
        return r

    Schedule.rotate, Schedule.tile_dim = rotate, tile_dim
    try:
        extra = []
        if "pos" in checks:
            extra.append(sch.is_pure_output_stationary)
        if "mem" in checks:
            extra.append(functools.partial(sch.is_memory_flexible_enough, element_sizes=sizes))
        results = []
        for res in itertools.islice(sch.scheduler_backtrack(template, schedule, extra_checks=extra), cap):
            steps = []
            cur = res
            while getattr(cur, "_verif_parent", None) is not None:
                steps.append((cur._verif_step, cur))
                cur = cur._verif_parent
            if cur is not schedule:
                raise MachineryError("scheduler result does not descend from the input schedule")
            steps.reverse()
            results.append((res, steps))
        # the public entry point (what the dart-scheduler pass calls): default selection and selection by index, with the same constraints
        if len(results) < cap:
            for idx in (None, 0, 1, 2):
                try:
                    res = sch.scheduler(template, schedule, extra_checks=extra, schedule_idx=idx)
                except (StopIteration, IndexError):
                    continue
                steps = []
                cur = res
                while getattr(cur, "_verif_parent", None) is not None:
                    steps.append((cur._verif_step, cur))
                    cur = cur._verif_parent
                if cur is not schedule:
                    raise MachineryError("scheduler() result does not descend from the input schedule")
                steps.reverse()
                results.append((res, steps))
        return results
    finally:
        Schedule.rotate, Schedule.tile_dim = orig_rotate, orig_tile


# ---------------------------------------------------------------- spec -> code replay
def simulate_and_replay(pid, rng, rep, n_inits, num, depth, seed):
    d = os.path.join(WORK, pid)
    os.makedirs(d, exist_ok=True)
    inits = [random_schedule(rng) for _ in range(n_inits)]
    path = os.path.join(d, "inits.json")
    json.dump(inits, open(path, "w"))
    r = run_tlc("MC_Schedule", "Sim_Schedule.cfg", env={"INITS": path}, workers=8, timeout=900,
                simulate=f"num={num}", extra=["-depth", str(depth), "-seed", str(seed + 1)])
    if r.invariant_violated:
        rep.violation("spec:IterSpacePreserved", "the specification's own transformations do not preserve the iteration space", {"tlc": r.out[-3000:]})
    elif r.error:
        raise MachineryError(f"simulation failed: {r.error}\n{r.out[-2000:]}")
    rep.add_tlc(r)
    seen = set()
    n = 0
    for mm in re.finditer(r'<<\s*"BEHAVIOUR",\s*"((?:[^"\\]|\\.)*)"\s*>>', r.out):
        js = mm.group(1).encode().decode("unicode_escape")
        if js in seen:
            continue
        seen.add(js)
        b = json.loads(js)
        n += 1
        cur = mk_sched(b["orig"])
        diverged = None
        for k, st in enumerate(b["hist"]):
            try:
                if st["act"] == "rotate":
                    cur = cur.rotate(st["a"])
                elif st["act"] == "tile":
                    cur = cur.tile_dim(st["a"] - 1, st["b"])
                elif st["act"] == "adddim":
                    cur = cur.add_dim()
                elif st["act"] == "dropunit":
                    c2 = cur.canonicalize()
                    cur = cur.clear_unused_dims()
                    if exp_sched(c2) != exp_sched(cur):
                        diverged = f"step {k + 1}: canonicalize() and clear_unused_dims() disagree"
                        break
            except Exception as e:
                diverged = f"step {k + 1} ({st}) raised {type(e).__name__}: {e}"
                break
        if diverged is None and exp_sched(cur) != b["sched"]:
            diverged = f"after {b['hist']}: real code gives {exp_sched(cur)}, specification gives {b['sched']}"
        rep.evaluations += 1
        if len(b["hist"]) > 0:
            rep.nontrivial.add(js)
        if diverged:
            rep.violation(f"replay:{json.dumps(b['orig'])}|{json.dumps(b['hist'])}", "spec->code replay diverges: " + diverged,
                          {"orig": b["orig"], "hist": b["hist"], "spec_state": b["sched"]})
    rep.extra["spec_behaviour_states_replayed_on_real_Schedule"] = n
    if n == 0:
        raise MachineryError("no behaviours were produced by the simulation")
    return n


def pass_level_cases(rng, rep, n):
    """modules with 1-3 operations through the real dart-scheduler pass: every dart.schedule must visit the iteration space of ITS operation"""
    from snaxc.dialects import dart
    from snaxc.ir.dart.affine_transform import AffineTransform
    ID = "affine_map<(d0) -> (d0)>"
    out = []
    for k in range(n):
        fam = rng.choice(["alu", "gemm"])
        funcs, metas = [], []
        for j in range(rng.choice([1, 2, 2, 3])):
            if fam == "alu":
                nn = rng.choice([4, 8, 16, 32, 64])
                t = f"memref<{nn}xi64>"
                # some operands are a fixed row of a matrix or a shifted window of a longer vector (constant parts in the access maps)
                tys, mps, pts = [], [], []
                for _o in range(3):
                    r = rng.random()
                    if r < 0.2:
                        row = rng.choice([0, 1, 2, 3])
                        tys.append(f"memref<4x{nn}xi64>")
                        mps.append(f"affine_map<(d0) -> ({row}, d0)>")
                        pts.append({"A": [[0], [1]], "b": [row, 0]})
                    elif r < 0.35:
                        o = rng.choice([4, 8, 12])
                        tys.append(f"memref<{nn + 16}xi64>")
                        mps.append(f"affine_map<(d0) -> (d0 + {o})>")
                        pts.append({"A": [[1]], "b": [o]})
                    else:
                        tys.append(t)
                        mps.append(ID)
                        pts.append({"A": [[1]], "b": [0]})
                if all(x != t for x in tys):
                    tys[2], mps[2], pts[2] = t, ID, {"A": [[1]], "b": [0]}
                funcs.append(f"""  func.func public @f{j}(%a : {tys[0]}, %b : {tys[1]}, %c : {tys[2]}) {{
    "dart.operation"(%a, %b, %c) <{{patterns = [{mps[0]}, {mps[1]}, {mps[2]}], accelerator = "snax_alu", operandSegmentSizes = array<i32: 2, 1>}}> ({{
    ^bb0(%0 : !dart.stream<i64>, %1 : !dart.stream<i64>, %2 : !dart.stream<i64>):
      %3 = "dart.generic"(%0, %1) <{{library_call = "snax_alu"}}> ({{
      ^bb1(%x : i64, %y : i64, %z : i64):
        %4 = kernel.add %x, %y : i64, i64 -> i64
        dart.yield %4 : i64
      }}) : (!dart.stream<i64>, !dart.stream<i64>) -> !dart.stream<i64>
      dart.yield %3 : !dart.stream<i64>
    }}) : ({tys[0]}, {tys[1]}, {tys[2]}) -> ()
    func.return
  }}""")
                metas.append({"bounds": [nn], "pats": pts})
            else:
                M, N, K = rng.choice([(8, 8, 8), (16, 8, 8), (8, 16, 8), (8, 8, 16), (16, 8, 16), (8, 24, 8)])
                ts = [f"memref<{M}x{K}xi8>", f"memref<{K}x{N}xi8, strided<[1, {K}]>>", f"memref<{M}x{N}xi32>"]
                funcs.append(f"""  func.func public @f{j}(%a : {ts[0]}, %b : {ts[1]}, %c : {ts[2]}) {{
    "dart.operation"(%a, %b, %c) <{{patterns = [affine_map<(m, n, k) -> (m, k)>, affine_map<(m, n, k) -> (k, n)>, affine_map<(m, n, k) -> (m, n)>], accelerator = "snax_gemmx", operandSegmentSizes = array<i32: 2, 1>}}> ({{
    ^bb0(%0 : !dart.stream<i8>, %1 : !dart.stream<i8>, %2 : !dart.stream<i32>):
      %3 = "dart.generic"(%0, %1) <{{library_call = "snax_gemmx"}}> ({{
      ^bb1(%x : i8, %y : i8, %z : i32):
        %4 = kernel.mac %x, %y : i8, i8 -> i32
        dart.yield %4 : i32
      }}) : (!dart.stream<i8>, !dart.stream<i8>) -> !dart.stream<i32>
      dart.yield %3 : !dart.stream<i32>
    }}) : ({ts[0]}, {ts[1]}, {ts[2]}) -> ()
    func.return
  }}""")
                metas.append({"bounds": [M, N, K], "pats": [{"A": [[1, 0, 0], [0, 0, 1]], "b": [0, 0]}, {"A": [[0, 0, 1], [0, 1, 0]], "b": [0, 0]},
                                                            {"A": [[1, 0, 0], [0, 1, 0]], "b": [0, 0]}]})
        text = "builtin.module {\n" + "\n".join(funcs) + "\n}\n"
        acc = "snax_alu" if fam == "alu" else "snax_gemmx"
        try:
            m = repo.parse(text)
            m.verify()
        except Exception as e:
            raise MachineryError(f"pass-level scheduler input invalid: {e}\n{text}")
        try:
            repo.run_pipeline(m, f"insert-accfg-op{{accelerator={acc}}},dart-scheduler")
        except (NotImplementedError, RuntimeError, StopIteration):
            rep.refused += 1
            continue
        except Exception as e:
            rep.violation(f"pass:{k}", f"dart-scheduler raised {type(e).__name__}: {str(e)[:200]}", {"source": text})
            continue
        schs = [o for o in m.walk() if isinstance(o, dart.ScheduleOp)]
        if len(schs) != len(metas):
            rep.refused += 1
            continue
        for j, (sch, meta) in enumerate(zip(schs, metas)):
            res = {"bounds": [b.value.data for b in sch.bounds.data],
                   "pats": [{"A": [[int(x) for x in r] for r in AffineTransform.from_affine_map(p.data).A],
                             "b": [int(x) for x in AffineTransform.from_affine_map(p.data).b]} for p in sch.patterns.data]}
            out.append({"kind": "schedpair", "init": meta, "result": res, "name": f"pass:{k}#op{j}:{meta['bounds']}", "text": text})
    return out


def run(pid: str, tier: str, seed: int, selftest=False, replay=None) -> int:
    rep = Report(pid, tier, seed)
    known = KnownFindings()
    rng = random.Random(seed)
    mine = C03_CLAUSES if pid == "C03" else C16_CLAUSES
    quick = tier == "quick"
    # (1) design-level exhaustive check of the specification itself (thorough only: ~45 s)
    if not quick and pid == "C03":
        r = run_tlc("MC_Schedule", "MC_Schedule.cfg", workers=16, timeout=1800)
        rep.add_tlc(r)
        rep.extra["design_check_states"] = r.distinct
        if r.invariant_violated or r.error:
            rep.violation("spec:MC_Schedule", f"design check failed: {r.invariant_violated or r.error}", {"tlc": r.out[-3000:]})
    # (2) spec -> code replay
    if pid == "C03":
        simulate_and_replay(pid, rng, rep, 40 if quick else 400, 8 if quick else 100, 5, seed)
    # (3) code -> spec: scheduler traces; (4) matcher equivalence
    cases = []
    refused = 0
    for (tb, tm), rec, sizes, checks in scheduler_inputs(rng, 350 if quick else 5000):
        try:
            template = mk_template(tb, tm)
            schedule = mk_sched(rec)
        except Exception:
            refused += 1
            continue
        try:
            results = record_scheduler(template, schedule, checks, sizes)
        except MachineryError:
            raise
        except Exception as e:
            rep.violation(f"sched:{json.dumps(rec)}|{tb}|{checks}", f"scheduler_backtrack raised {type(e).__name__}: {str(e)[:200]}",
                          {"template": exp_template(template), "schedule": rec, "checks": checks})
            continue
        if not results:
            refused += 1
        for res, steps in results:
            cases.append({"kind": "schedtrace", "init": rec, "final": exp_sched(res), "template": exp_template(template),
                          "steps": [{"act": s[0], "a": s[1], "b": s[2], "result": exp_sched(o)} for s, o in steps],
                          "checks": checks or ["none"], "sizes": sizes, "name": f"sched:{json.dumps(rec)}|{tb}|{checks}"})
        # API-level steps on this schedule (both properties' elementary transformations)
        if pid == "C03":
            for _ in range(2):
                act = rng.choice(["rotate", "tile", "adddim", "dropunit"])
                nd = len(rec["bounds"])
                a, b = 0, 0
                try:
                    if act == "rotate":
                        a = rng.randint(1, nd)
                        out = schedule.rotate(a)
                    elif act == "tile":
                        a = rng.randint(1, nd)
                        divs = [t for t in (2, 3, 4, 8) if rec["bounds"][a - 1] % t == 0]
                        if not divs:
                            continue
                        b = rng.choice(divs)
                        out = schedule.tile_dim(a - 1, b)
                    elif act == "adddim":
                        out = schedule.add_dim()
                    else:
                        out = schedule.clear_unused_dims()
                except Exception as e:
                    rep.violation(f"api:{act}:{json.dumps(rec)}", f"{act} raised {type(e).__name__}: {e}", {"schedule": rec})
                    continue
                cases.append({"kind": "apistep", "init": rec, "act": act, "a": a, "b": b, "result": exp_sched(out),
                              "name": f"api:{act}:{a}:{b}:{json.dumps(rec)}"})
    if pid == "C03":
        cases += pass_level_cases(rng, rep, 40 if quick else 600)
    if pid == "C16":
        from snaxc.ir.dart.access_pattern import SchedulePattern, TemplatePattern
        from snaxc.ir.dart.affine_transform import AffineTransform
        for _ in range(1500 if quick else 30000):
            tnd = rng.choice([1, 2, 3])
            snd = rng.choice([tnd, tnd, tnd + 1, max(1, tnd - 1)])
            trows, srows = rng.choice([1, 2, 3]), rng.choice([1, 2, 2, 3, 4])      # also operands of higher rank than the template operand
            tA = [[rng.randint(-2, 3) if rng.random() < 0.7 else 0 for _ in range(tnd)] for _ in range(trows)]
            if rng.random() < 0.5 and snd >= tnd and srows <= trows:
                # derive the schedule rows from the template rows (same subspace) by an invertible integer combination
                base = tA[trows - srows:]
                sA = [[0] * (snd - tnd) + [rng.choice([1, 2, -1]) * x for x in row] for row in base]
                if srows == 2 and rng.random() < 0.5:
                    sA[0] = [x + y for x, y in zip(sA[0], sA[1])]
            else:
                sA = [[rng.randint(-2, 3) if rng.random() < 0.7 else 0 for _ in range(snd)] for _ in range(srows)]
            tp = TemplatePattern([None] * tnd, AffineTransform(np.array(tA, dtype=np.int_), np.zeros(trows, dtype=np.int_)))
            sp = SchedulePattern([2] * snd, AffineTransform(np.array(sA, dtype=np.int_), np.zeros(srows, dtype=np.int_)))
            try:
                got = bool(tp.matches(sp))
            except Exception as e:
                rep.violation(f"match:{tA}|{sA}", f"TemplatePattern.matches raised {type(e).__name__}: {e}", {"tA": tA, "sA": sA})
                continue
            cases.append({"kind": "match", "tA": tA, "sA": sA, "tnd": tnd, "snd": snd, "got": 1 if got else 0, "name": f"match:{tA}|{sA}"})
    rep.refused = refused
    rep.rule = ("C03: TLC-simulated behaviours of MC_Schedule (Rotate/Tile/AddDim/DropUnit sequences) replayed on real Schedule objects + every schedule "
                "yielded by the real scheduler_backtrack (all results, cap 64) recorded as a trace of elementary steps and validated against Schedule.tla "
                "(TraceStep, IterSpace); C16: Fits/constraints on every yielded schedule + matcher equivalence on random integer patterns; "
                "non-trivial = trace with >= 1 step / distinct matcher pair")
    CH = 3000
    for lo in range(0, len(cases), CH):
        chunk = cases[lo:lo + CH]
        r, verdicts = run_obj_batch(pid, chunk, tag=f"batch{lo}", coverage=(lo == 0))
        rep.add_tlc(r)
        for tid, v in verdicts.items():
            c = chunk[tid - 1]
            rep.evaluations += 1
            rep.traces += 1
            if c["kind"] != "schedtrace" or c["steps"]:
                rep.nontrivial.add(c["name"] + str(c.get("final", "")))
            if len(rep.samples) < 3 and c["kind"] == "schedtrace" and len(c["steps"]) > 2:
                rep.samples.append(c)
            if v != "ok" and v in mine:
                rep.violation(c["name"], f"clause {v} fails ({c['kind']})", {"case": c, "clause": v})
            elif v != "ok" and v not in C03_CLAUSES | C16_CLAUSES:
                raise MachineryError(f"unexpected verdict {v} for {c['name']}")
    return rep.finish(known)
