"""Entry point: bin/check <Cxx> --tier quick|thorough [--seed N] [--replay PATH] [--selftest]"""
from __future__ import annotations

import argparse
import os
import sys
import traceback

HERE = os.path.dirname(os.path.abspath(__file__))
sys.path.insert(0, HERE)

from common import MachineryError, seed_from_env  # noqa: E402

DISPATCH = {
    "C04": ("checks_csr", "run"), "C12": ("checks_casts", "run"), "C11": ("checks_alloc", "run"), "C20": ("checks_pe", "run"), "C18": ("checks_kernel", "run"), "C15": ("checks_pipeline", "run"), "C13": ("checks_barrier", "run"), "C14": ("checks_dispatch", "run"), "C05": ("checks_dma", "run"), "C08": ("checks_regfile", "run"), "C02": ("checks_stream", "run"), "C09": ("checks_memlayout", "run"), "C19": ("checks_canon", "run"), "C03": ("checks_sched", "run"), "C16": ("checks_sched", "run"), "C10": ("checks_layout", "run"), "C17": ("checks_loops", "run"),
    "C01": ("checks_accfg", "run"), "C06": ("checks_accfg", "run"), "C07": ("checks_accfg", "run"),
    # beyond the listed properties (harness/checks_extra.py; evidence/extra/; not in MANIFEST.checks)
    "E01": ("checks_extra", "run"), "E02": ("checks_extra", "run"), "E03": ("checks_extra", "run"), "E04": ("checks_extra", "run"), "E05": ("checks_extra", "run"),
}


def run_selftest(pid, seed):
    """Corrupt the recorded artefacts of the run that just finished; TLC must reject (harness/selftest.py)."""
    import json
    import selftest
    from common import VERIF
    summ = selftest.run(pid, seed)
    tried, rej = sum(summ["tried"].values()), sum(summ["rejected"].values())
    print(f"[{pid}] selftest: {rej}/{tried} corrupted artefacts rejected; per kind tried={summ['tried']} rejected={summ['rejected']}")
    evp = os.path.join(VERIF, "evidence", f"{pid}.json")
    ev = json.load(open(evp))
    ev["coverage"]["selftest"] = summ
    json.dump(ev, open(evp, "w"), indent=1)
    if tried == 0 or rej == 0:
        raise MachineryError(f"selftest: no corrupted artefact was rejected ({tried} tried)")
    return 0


def main():
    ap = argparse.ArgumentParser()
    ap.add_argument("pid")
    ap.add_argument("--tier", default=os.environ.get("VERIF_TIER", "quick"), choices=["quick", "thorough"])
    ap.add_argument("--seed", type=int, default=None)
    ap.add_argument("--replay", default=None)
    ap.add_argument("--selftest", action="store_true")
    a = ap.parse_args()
    seed = seed_from_env(a.seed if a.seed is not None else 0)
    if a.pid not in DISPATCH:
        print(f"unknown property {a.pid}")
        return 2
    modname, fn = DISPATCH[a.pid]
    if a.replay:
        # generic replay: re-run the check with the seed and tier recorded in the replay file, report only that case
        import json
        import common
        rj = json.load(open(a.replay))
        common.REPLAY_KEY, common.REPLAY_PATH = rj["key"], a.replay
        seed, a.tier = int(rj.get("seed", seed)), rj.get("tier", a.tier)
    try:
        mod = __import__(modname)
        rc = getattr(mod, fn)(a.pid, a.tier, seed, selftest=a.selftest, replay=a.replay)
        if rc == 0 and not a.replay and (a.selftest or a.tier == "thorough"):
            rc = run_selftest(a.pid, seed)
        return rc
    except MachineryError as e:
        print(f"MACHINERY-ERROR {a.pid}: {e}")
        return 2
    except Exception:
        traceback.print_exc()
        print(f"MACHINERY-ERROR {a.pid}: unexpected exception")
        return 2


if __name__ == "__main__":
    sys.exit(main())
