"""C19: canonical forms and alternative representations denote the same object."""
from __future__ import annotations

import itertools
import random

import numpy as np

import repo  # noqa: F401
from common import KnownFindings, MachineryError, Report
from objs import export_affine, run_obj_batch
from pairs import image_of, oracle_at, run_pair_batch


def rand_expr(rng, nd, depth, raw=False):
    from xdsl.ir.affine import AffineBinaryOpExpr, AffineBinaryOpKind, AffineConstantExpr, AffineDimExpr
    if depth == 0 or rng.random() < 0.25:
        if rng.random() < 0.6:
            return AffineDimExpr(rng.randrange(nd))
        return AffineConstantExpr(rng.randint(-2, 4))
    kind = rng.choice(["add", "add", "mul", "mul", "floordiv", "mod"])
    lhs = rand_expr(rng, nd, depth - 1, raw)
    if kind in ("floordiv", "mod"):
        rhs = AffineConstantExpr(rng.choice([1, 1, 2, 3, 4]))
    elif kind == "mul":
        rhs = AffineConstantExpr(rng.randint(-2, 4)) if rng.random() < 0.7 else rand_expr(rng, nd, 0, raw)
        if rng.random() < 0.3:
            lhs, rhs = rhs, lhs
    else:
        rhs = rand_expr(rng, nd, depth - 1, raw)
    k = {"add": AffineBinaryOpKind.Add, "mul": AffineBinaryOpKind.Mul, "floordiv": AffineBinaryOpKind.FloorDiv,
         "mod": AffineBinaryOpKind.Mod}[kind]
    # raw construction keeps nodes that xDSL's operator overloads would fold away
    return AffineBinaryOpExpr(k, lhs, rhs)


def is_semi_affine_ok(e):
    """mul of two non-constants is not affine: restrict to products with a constant operand."""
    from xdsl.ir.affine import AffineBinaryOpExpr, AffineBinaryOpKind, AffineConstantExpr
    if isinstance(e, AffineBinaryOpExpr):
        if e.kind == AffineBinaryOpKind.Mul and not (isinstance(e.lhs, AffineConstantExpr) or isinstance(e.rhs, AffineConstantExpr)):
            return False
        return is_semi_affine_ok(e.lhs) and is_semi_affine_ok(e.rhs)
    return True


def exhaustive_exprs(nd):
    from xdsl.ir.affine import AffineBinaryOpExpr, AffineBinaryOpKind, AffineConstantExpr, AffineDimExpr
    leaves = [AffineDimExpr(i) for i in range(nd)] + [AffineConstantExpr(c) for c in (-1, 0, 1, 2, 3)]
    lvl1 = []
    for k in (AffineBinaryOpKind.Add, AffineBinaryOpKind.Mul, AffineBinaryOpKind.FloorDiv, AffineBinaryOpKind.Mod):
        for l, r in itertools.product(leaves, leaves):
            if k in (AffineBinaryOpKind.FloorDiv, AffineBinaryOpKind.Mod) and not (isinstance(r, AffineConstantExpr) and r.value > 0):
                continue
            lvl1.append(AffineBinaryOpExpr(k, l, r))
    out = [e for e in leaves + lvl1 if is_semi_affine_ok(e)]
    return out, lvl1, leaves


def run(pid: str, tier: str, seed: int, selftest=False, replay=None) -> int:
    from xdsl.ir.affine import AffineBinaryOpExpr, AffineBinaryOpKind, AffineMap
    from xdsl.parser import Parser

    from snaxc.dialects.snax import StreamerConfigurationAttr
    from snaxc.dialects.snax_stream import StridePattern
    from snaxc.ir.dart.access_pattern import SchedulePattern
    from snaxc.ir.dart.affine_transform import AffineTransform
    from snaxc.util.canonicalize_affine import canonicalize_expr, canonicalize_map
    from snaxc.util.pack_bitlist import pack_bitlist

    rep = Report(pid, tier, seed)
    known = KnownFindings()
    rng = random.Random(seed)
    quick = tier == "quick"
    ctx = repo.opt_main().ctx
    cases = []

    def viol(name, what, data):
        rep.evaluations += 1
        rep.violation(name, what, data)

    # ---- (a) canonicalize_expr / canonicalize_map
    nd = 2
    base, lvl1, leaves = exhaustive_exprs(nd)
    exprs = list(base)
    # depth 2: combine level-1 expressions (sampled in quick)
    combos = []
    for k in (AffineBinaryOpKind.Add, AffineBinaryOpKind.Mul):
        for l in lvl1:
            for r in leaves:
                combos.append(AffineBinaryOpExpr(k, l, r))
                combos.append(AffineBinaryOpExpr(k, r, l))
    combos = [e for e in combos if is_semi_affine_ok(e)]
    rng.shuffle(combos)
    exprs += combos[: (1200 if quick else len(combos))]
    for _ in range(1500 if quick else 40000):
        e = rand_expr(rng, 3, rng.choice([2, 3, 4]))
        if is_semi_affine_ok(e):
            exprs.append(e)
    for k, e in enumerate(exprs):
        try:
            c1 = canonicalize_expr(e)
            c2 = canonicalize_expr(c1)
        except Exception as ex:
            viol(f"affine:{e}", f"canonicalize_expr raised {type(ex).__name__}: {ex}", {"expr": str(e)})
            continue
        cases.append({"kind": "affcanon", "name": f"affine:{e}", "e": export_affine(e), "c": export_affine(c1), "c2": export_affine(c2),
                      "nd": 3, "lo": -2, "hi": 3, "text": str(e), "canon_text": str(c1)})
    # maps: canonicalize_map on a few multi-result maps
    for _ in range(100 if quick else 2000):
        res = tuple(e for e in (rand_expr(rng, 3, 2) for _ in range(rng.choice([1, 2, 3]))) if is_semi_affine_ok(e))
        if not res:
            continue
        m = AffineMap(3, 0, res)
        try:
            cm = canonicalize_map(m)
        except Exception as ex:
            viol(f"map:{m}", f"canonicalize_map raised {type(ex).__name__}: {ex}", {"map": str(m)})
            continue
        for i, (e, c) in enumerate(zip(m.results, cm.results)):
            cases.append({"kind": "affcanon", "name": f"map:{m}#{i}", "e": export_affine(e), "c": export_affine(c),
                          "c2": export_affine(canonicalize_expr(c)), "nd": 3, "lo": -2, "hi": 3, "text": str(m), "canon_text": str(cm)})

    # ---- (b) AffineTransform <-> AffineMap, compose, eval
    for _ in range(400 if quick else 8000):
        ndm, nres = rng.choice([1, 2, 3]), rng.choice([1, 2, 3])
        A = [[rng.randint(-3, 4) for _ in range(ndm)] for _ in range(nres)]
        b = [rng.randint(-3, 5) for _ in range(nres)]
        at = AffineTransform(np.array(A, dtype=np.int_).reshape(nres, ndm), np.array(b, dtype=np.int_))
        try:
            m = at.to_affine_map()
            back = AffineTransform.from_affine_map(m)
            # also a map written differently (sum order / nested adds) through from_affine_map
            pts = [[rng.randint(-3, 5) for _ in range(ndm)] for _ in range(3)]
            got = [[int(v) for v in at.eval(np.array(p, dtype=np.int_))] for p in pts]
            batch = at.eval(np.array(pts, dtype=np.int_))
            if [[int(v) for v in row] for row in batch] != got:
                viol(f"at:{A}{b}", "AffineTransform.eval: batch and single-vector results differ", {"A": A, "b": b})
        except Exception as ex:
            viol(f"at:{A}{b}", f"AffineTransform API raised {type(ex).__name__}: {ex}", {"A": A, "b": b})
            continue
        cases.append({"kind": "affmap", "name": f"at:{A}{b}", "A": [[int(x) for x in r] for r in back.A], "b": [int(x) for x in back.b],
                      "results": [export_affine(e) for e in m.results], "back": [export_affine(e) for e in back.to_affine_map().results],
                      "evalpts": pts, "evalgot": got, "nd": ndm, "lo": -2, "hi": 3, "text": str(m)})
        # from_affine_map of a randomly written linear map
        res = []
        for _r in range(nres):
            e = None
            from xdsl.ir.affine import AffineConstantExpr, AffineDimExpr
            terms = [AffineConstantExpr(rng.randint(-2, 3)) * AffineDimExpr(rng.randrange(ndm)) for _ in range(rng.choice([1, 2, 3]))]
            terms.append(AffineConstantExpr(rng.randint(-2, 3)))
            rng.shuffle(terms)
            e = terms[0]
            for t in terms[1:]:
                e = e + t if rng.random() < 0.7 else t + e
            res.append(e)
        m2 = AffineMap(ndm, 0, tuple(res))
        try:
            at2 = AffineTransform.from_affine_map(m2)
        except Exception as ex:
            viol(f"fam:{m2}", f"from_affine_map raised {type(ex).__name__}: {ex}", {"map": str(m2)})
            continue
        cases.append({"kind": "affmap", "name": f"fam:{m2}", "A": [[int(x) for x in r] for r in at2.A], "b": [int(x) for x in at2.b],
                      "results": [export_affine(e) for e in m2.results], "back": [export_affine(e) for e in at2.to_affine_map().results],
                      "evalpts": [], "evalgot": [], "nd": ndm, "lo": -2, "hi": 3, "text": str(m2)})
        # compose
        mid = rng.choice([1, 2, 3])
        A2 = [[rng.randint(-2, 3) for _ in range(ndm)] for _ in range(mid)]
        b2 = [rng.randint(-2, 3) for _ in range(mid)]
        A1 = [[rng.randint(-2, 3) for _ in range(mid)] for _ in range(nres)]
        b1 = [rng.randint(-2, 3) for _ in range(nres)]
        t1 = AffineTransform(np.array(A1, dtype=np.int_).reshape(nres, mid), np.array(b1, dtype=np.int_))
        t2 = AffineTransform(np.array(A2, dtype=np.int_).reshape(mid, ndm), np.array(b2, dtype=np.int_))
        try:
            cmp_ = t1.compose(t2)
        except Exception as ex:
            viol(f"compose:{A1}{A2}", f"compose raised {type(ex).__name__}: {ex}", {})
            continue
        cases.append({"kind": "compose", "name": f"compose:{A1}{b1}{A2}{b2}", "A1": A1, "b1": b1, "A2": A2, "b2": b2,
                      "CA": [[int(x) for x in r] for r in cmp_.A], "Cb": [int(x) for x in cmp_.b], "nd": ndm, "lo": -2, "hi": 3, "text": "compose"})

    # ---- (c) AccessPattern.canonicalize / inner_dims
    def exp_pat(p):
        # (a dynamic bound - None, templates only - is exported as 0; ObjCheck instantiates it with an extent of 3)
        return {"bounds": [int(x) if x is not None else 0 for x in p.bounds],
                "pats": [{"A": [[int(x) for x in r] for r in p.pattern.A], "b": [int(x) for x in p.pattern.b]}]}
    from snaxc.ir.dart.access_pattern import TemplatePattern
    for _ in range(400 if quick else 8000):
        ndp = rng.choice([1, 2, 3, 4])
        tmpl_pat = rng.random() < 0.3
        bounds = [rng.choice([1, 1, 2, 3, 4] + ([None, None] if tmpl_pat else [])) for _ in range(ndp)]
        rows = rng.choice([1, 2])
        A = [[rng.randint(-2, 3) for _ in range(ndp)] for _ in range(rows)]
        b = [rng.randint(0, 2) for _ in range(rows)]
        p = (TemplatePattern if tmpl_pat else SchedulePattern)(bounds, AffineTransform(np.array(A, dtype=np.int_).reshape(rows, ndp), np.array(b, dtype=np.int_)))
        k = rng.randint(1, ndp)
        try:
            c1 = p.canonicalize()
            c2 = c1.canonicalize()
            inner = p.inner_dims(k)
        except Exception as ex:
            viol(f"pat:{bounds}{A}", f"AccessPattern API raised {type(ex).__name__}: {ex}", {"bounds": bounds, "A": A})
            continue
        cases.append({"kind": "accesspat", "name": f"pat:{bounds}{A}{b}", "orig": exp_pat(p), "canon": exp_pat(c1), "canon2": exp_pat(c2),
                      "inner": exp_pat(inner), "k": k, "text": str(p)})

    # ---- (d) StridePattern canonicalize + print/parse
    def exp_sp(sp):
        return {"ub": [x.data for x in sp.upper_bounds.data], "ts": [x.data for x in sp.temporal_strides.data],
                "ss": [x.data for x in sp.spatial_strides.data]}
    for _ in range(1200 if quick else 30000):
        n = rng.choice([0, 1, 2, 3, 4])
        ub = [rng.choice([1, 1, 2, 3, 4, 0 if rng.random() < 0.1 else 2]) for _ in range(n)]
        ts = []
        cur = rng.choice([1, 4, 8])
        for u in ub:
            r = rng.random()
            ts.append(cur if r < 0.5 else rng.choice([0, 1, 4, 7, 8, 16, 32, 64]))
            cur = ts[-1] * max(u, 1) if r < 0.8 else cur
        ss = [rng.choice([1, 8, 0 if rng.random() < 0.15 else 8]) for _ in range(rng.choice([1, 2]))]
        sp = StridePattern(ub, ts, ss)
        try:
            c1 = sp.canonicalize()
            c2 = c1.canonicalize()
            rp = Parser(ctx, str(sp)).parse_attribute()
        except Exception as ex:
            viol(f"sp:{ub}{ts}{ss}", f"StridePattern API raised {type(ex).__name__}: {ex}", {"ub": ub, "ts": ts, "ss": ss})
            continue
        cases.append({"kind": "stridepat", "name": f"sp:{ub}{ts}{ss}", "orig": exp_sp(sp), "canon": exp_sp(c1), "canon2": exp_sp(c2),
                      "reparsed": exp_sp(rp), "text": str(sp)})

    # ---- (f) StreamerConfigurationAttr print -> parse
    from snaxc.accelerators.streamers.streamers import Streamer, StreamerConfiguration, StreamerFlag, StreamerType
    from snaxc.dialects.snax import STREAMER_OPT_MAP

    def exp_cfg(cfg):
        return [{"type": str(s.type.value), "temp": [str(f.value) for f in s.temporal_dims], "spat": [int(d) for d in s.spatial_dims],
                 "opts": [type(o).__name__ for o in s.opts]} for s in cfg.streamers]
    optnames = sorted(STREAMER_OPT_MAP)
    for _ in range(200 if quick else 4000):
        streamers = []
        for _s in range(rng.choice([1, 2, 3, 4, 5])):
            opts = [STREAMER_OPT_MAP[o]() for o in rng.sample(optnames, rng.choice([0, 0, 1, 2, min(3, len(optnames))]))]
            streamers.append(Streamer(rng.choice(list(StreamerType)), [rng.choice(list(StreamerFlag)) for _ in range(rng.randint(1, 6))],
                                      [rng.choice([2, 4, 8]) for _ in range(rng.choice([1, 2]))], opts))
        try:
            attr = StreamerConfigurationAttr(StreamerConfiguration(streamers))
            rp = Parser(ctx, str(attr)).parse_attribute()
            cases.append({"kind": "eq", "clause": "PrintParse", "name": f"cfg:{attr}", "x": exp_cfg(attr.data), "y": exp_cfg(rp.data), "text": str(attr)})
        except Exception as ex:
            viol(f"cfg:{exp_cfg(StreamerConfiguration(streamers))}", f"streamer config print/parse raised {type(ex).__name__}: {str(ex)[:150]}", {})

    rep.rule = ("affine trees: exhaustive depth<=1 over d0,d1 and constants -1..3, depth-2 combinations, random depth<=4 (raw nodes, so foldable shapes "
                "are kept), evaluated on the box -2..3^3; AffineTransform from/to map, compose, eval; AccessPattern canonicalize/inner_dims; "
                "StridePattern canonicalize (address sequence) and print/parse; streamer configuration print/parse; pack_bitlist executed on IRMachine "
                "for all inputs at widths 8/16; non-trivial = distinct object text")
    CH = 4000
    for lo in range(0, len(cases), CH):
        chunk = cases[lo:lo + CH]
        r, verdicts = run_obj_batch(pid, chunk, tag=f"batch{lo}", coverage=(lo == 0))
        rep.add_tlc(r)
        for tid, v in verdicts.items():
            c = chunk[tid - 1]
            rep.evaluations += 1
            rep.traces += 1
            rep.nontrivial.add(c["name"])
            if len(rep.samples) < 4 and rng.random() < 0.01:
                rep.samples.append({k: c[k] for k in c if k in ("kind", "name", "text", "canon_text")})
            if v != "ok":
                rep.violation(c["name"], f"clause {v} fails ({c['kind']}: {c.get('text', '')[:120]} -> {c.get('canon_text', '')[:120]})", {"case": c, "clause": v})

    # ---- (e) pack_bitlist on the machine
    from xdsl.dialects import arith, builtin, func, test
    from xdsl.ir import Block, Region
    pcases = []
    for k in range(60 if quick else 600):
        w = rng.choice([8, 16])
        n = rng.choice([1, 2, 3, 4, 5]) if k % 3 else rng.choice([6, 6, 7, 7, 8, 9, 10, 11, 12])     # every field count 1..12 (any reduction tree shape)
        if n > 5:
            w = 16
        offs = sorted(rng.sample(range(0, w), min(n, w)))
        n = len(offs)
        ty = builtin.IntegerType(w)
        block = Block(arg_types=[ty] * n)
        # mix SSA values and python ints
        vals = []
        const_pos = {}
        for i in range(n):
            if rng.random() < 0.25:
                cv = rng.randint(0, 3)
                vals.append(cv)
                const_pos[i] = cv
            else:
                vals.append(block.args[i])
        ops = list(pack_bitlist(vals, offs, dtype=w))
        block.add_ops(ops)
        # observe (packed, v1..vn); constants are re-materialised so that the event carries them
        ins = []
        for i in range(n):
            if i in const_pos:
                c = arith.ConstantOp.from_int_and_width(const_pos[i], w)
                block.add_op(c)
                ins.append(c.result)
            else:
                ins.append(block.args[i])
        block.add_op(test.TestOp(operands=[ops[-1].results[0], *ins]))
        block.add_op(func.ReturnOp())
        f = func.FuncOp("f", ([ty] * n, []), Region(block))
        try:
            f.verify()
        except Exception as ex:
            raise MachineryError(f"pack_bitlist harness function invalid: {ex}")
        img = image_of(f)
        dom = [-1, 0, 1, 2, 3, 2 ** (w - 1) - 1, -(2 ** (w - 1))] if n <= 3 else ([-1, 0, 1, 5] if n <= 5 else [0, 1])
        pcases.append({"name": f"pack:w{w}:{offs}:{sorted(const_pos.items())}", "A": img, "B": img, "argdom": [dom] * n, "opqdom": [[0]],
                       "extra": {"offs": offs, "w": w}, "text": str(f)})
    r, per = run_pair_batch(pid, "packbits", pcases, tag="pack")
    rep.add_tlc(r)
    for tid, vs in per.items():
        c = pcases[tid - 1]
        rep.evaluations += len(vs)
        rep.traces += 1
        rep.nontrivial.add(c["name"])
        bad = [v for v in vs if v[1] != "ok"]
        if bad:
            rep.violation(c["name"], f"pack_bitlist: clause {bad[0][1]} for inputs {oracle_at(c, bad[0][0])['args']}", {"ir": c["text"], "offs": c["extra"]["offs"]})
    if pcases:
        rep.samples.append({"kind": "pack_bitlist", "ir": pcases[0]["text"], "offs": pcases[0]["extra"]["offs"], "width": pcases[0]["extra"]["w"]})
    return rep.finish(known)
