"""C20: after any history of merges, decoding any merged kernel against the PE yields switch values under which
the PE computes exactly that kernel."""
from __future__ import annotations

import os
import random
import re
import traceback

import repo  # noqa: F401
from common import WORK, KnownFindings, MachineryError, Report, run_tlc
from objs import run_obj_batch

INT_OPS = ["arith.addi", "arith.subi", "arith.muli", "arith.maxsi", "arith.minsi"]
FLT_OPS = ["arith.addf", "arith.subf", "arith.mulf"]
NOPS_PLAN = [2, 3, 1, 2, 4, 3, 2, 1, 3]


def make_library(rng, nk, float_share=0.25):
    """kernel = (nin, type, [(op, ref_a, ref_b)], yield_ref); refs: ('a', i) input | ('t', j) earlier op."""
    lib = []
    seen = set()
    # one accelerator template per run: all kernels share the element type and the number of inputs
    run_fl = rng.random() < float_share
    run_nin = rng.choice([2, 2, 3])
    while len(lib) < nk:
        fl = run_fl
        ty = "f32" if fl else "i32"
        ops_pool = FLT_OPS if fl else INT_OPS
        nin = run_nin
        nops = max(run_nin - 1, NOPS_PLAN[len(lib) % len(NOPS_PLAN)])      # every library holds short and long bodies (stage ids are numbered per body)
        ops = []
        for j in range(nops):
            cands = [("a", i) for i in range(nin)] + [("t", q) for q in range(j)]
            a = ("t", j - 1) if j > 0 and rng.random() < 0.7 else rng.choice(cands)
            b = rng.choice(cands)
            if rng.random() < 0.3:
                a, b = b, a
            ops.append((rng.choice(ops_pool), a, b))
        key = (nin, ty, tuple(ops))
        used = {r[1] for _, a, b in ops for r in (a, b) if r[0] == "a"}
        dead = [j for j in range(nops - 1) if not any(("t", j) in (a, b) for _, a, b in ops[j + 1:])]
        twice = any(a == b for _, a, b in ops)      # known finding known/C20/same_operand_twice.json
        if key in seen or used != set(range(nin)) or dead or twice:
            continue     # every input and every intermediate value is used (unused block arguments are erased by the encoder)
        seen.add(key)
        lib.append((nin, ty, ops, ("t", nops - 1)))
        # its twin with the operands of one operation exchanged: the same operations, another routing
        if len(lib) < nk and len(lib) <= 4:
            j = rng.randrange(nops)
            op, a, b = ops[j]
            tw = list(ops)
            if len(lib) == 1:
                # the first pair of twins differs in the operand order of a NON-commutative operation: both routings of the same two
                # sources exist in the merged PE and only one of them computes the kernel
                nc = "arith.subf" if fl else "arith.subi"
                ops[j] = (nc, a, b)
                lib[-1] = (nin, ty, list(ops), ("t", nops - 1))
                op = nc
                tw = list(ops)
            tw[j] = (op, b, a)
            tkey = (nin, ty, tuple(tw))
            if a != b and tkey not in seen:
                seen.add(tkey)
                lib.append((nin, ty, tw, ("t", nops - 1)))
    return lib


def kernel_text(k):
    nin, ty, ops, y = k
    ref = lambda r: f"%a{r[1]}" if r[0] == "a" else f"%t{r[1]}"
    lines = [f"%t{j} = {op} {ref(a)}, {ref(b)} : {ty}" for j, (op, a, b) in enumerate(ops)] + [f"linalg.yield {ref(y)} : {ty}"]
    ins = ", ".join(f"%I{i}" for i in range(nin))
    tys = ", ".join([f"memref<8x{ty}>"] * nin)
    maps = ", ".join(["affine_map<(d0) -> (d0)>"] * (nin + 1))
    args = ", ".join(f"%a{i} : {ty}" for i in range(nin)) + f", %o : {ty}"
    fargs = ", ".join(f"%I{i} : memref<8x{ty}>" for i in range(nin))
    body = "\n    ".join(lines)
    return f"""func.func @f({fargs}, %O : memref<8x{ty}>) {{
  linalg.generic {{indexing_maps = [{maps}], iterator_types = ["parallel"]}} ins({ins} : {tys}) outs(%O : memref<8x{ty}>) {{
  ^bb0({args}):
    {body}
  }}
  func.return
}}"""


def kernel_record(k):
    nin, ty, ops, y = k
    ref = lambda r: {"t": "arg", "i": r[1]} if r[0] == "a" else {"t": "node", "i": r[1] + 1}
    return {"ndata": nin, "ops": [{"op": op, "a": [ref(a), ref(b)]} for op, a, b in ops], "yield": ref(y)}


def export_pe(pe):
    """syntactic export of a phs.pe graph"""
    from xdsl.ir import BlockArgument

    from snaxc.dialects import phs
    data = list(pe.data_operands())
    switches = list(pe.get_switches())
    nodes = []
    index = {}

    def ref(v):
        if isinstance(v, BlockArgument) and v in data:
            return {"t": "arg", "i": data.index(v)}
        if v.owner in index:
            return {"t": "node", "i": index[v.owner]}
        return {"t": "node", "i": -1}    # forward reference: resolved below

    ops = [o for o in pe.body.block.ops if not isinstance(o, phs.YieldOp)]
    for i, o in enumerate(ops):
        index[o] = i + 1
    for o in ops:
        if not isinstance(o, phs.ChooseOp | phs.MuxOp):
            # an operation without a switch (hardware view after phs-remove-one-option-switches)
            nodes.append({"kind": "op", "sw": -1, "a": [ref(x) for x in o.operands][:2], "alts": [{"op": o.name, "a": [0, 1]}]})
        elif isinstance(o, phs.MuxOp):
            nodes.append({"kind": "mux", "sw": switches.index(o.switch), "a": [ref(o.lhs), ref(o.rhs)], "alts": [{"op": "", "a": [0, 0]}]})
        else:
            alts = []
            for reg_op in o.operations():
                blk = reg_op.parent_block()
                alts.append({"op": reg_op.name, "a": [blk.args.index(x) if x in blk.args else -1 for x in reg_op.operands][:2]})
            nodes.append({"kind": "choose", "sw": switches.index(o.switch), "a": [ref(x) for x in o.data_operands], "alts": alts})
    y = pe.get_terminator().operands[0]
    return {"ndata": len(data), "nsw": len(switches), "nodes": nodes, "yield": ref(y)}


def tlc_histories(pid, nk, maxlen):
    d = os.path.join(WORK, pid)
    os.makedirs(d, exist_ok=True)
    cfg = os.path.join(os.path.dirname(os.path.dirname(os.path.abspath(__file__))), "spec", f".HistGen_{pid}.cfg")
    with open(cfg, "w") as f:
        f.write(f"SPECIFICATION Spec\nCONSTANTS\n  NK = {nk}\n  MaxLen = {maxlen}\nINVARIANT Emit\nCHECK_DEADLOCK FALSE\n")
    r = run_tlc("HistGen", os.path.basename(cfg), workers=4, timeout=600)
    os.remove(cfg)
    hs = []
    for mm in re.finditer(r'<<\s*"HISTORY",\s*<<([^>]*)>>\s*>>', r.out):
        body = mm.group(1).strip()
        hs.append([int(x) for x in body.split(",")] if body else [])
    return r, [h for h in hs if h]


def run(pid: str, tier: str, seed: int, selftest=False, replay=None) -> int:
    from xdsl.dialects import linalg
    from xdsl.pattern_rewriter import PatternRewriter

    from snaxc.phs.combine import append_to_abstract_graph
    from snaxc.phs.decode import decode_abstract_graph
    from snaxc.phs.encode import convert_generic_body_to_phs
    rep = Report(pid, tier, seed)
    known = KnownFindings()
    rng = random.Random(seed)
    quick = tier == "quick"
    nk, maxlen = (7, 3) if quick else (9, 4)
    lib = make_library(rng, nk)
    r, hists = tlc_histories(pid, nk, maxlen)
    rep.add_tlc(r)
    if not hists:
        raise MachineryError("TLC produced no histories")
    if not quick:
        rng.shuffle(hists)
        hists = hists[:3000]
    ctx = repo.opt_main().ctx

    def generic_of(k):
        mod = repo.parse(kernel_text(k))
        return [o for o in mod.walk() if isinstance(o, linalg.GenericOp)][0], mod
    cases = []
    keep = []
    maps = []
    import glob, json
    jobs = []
    base = os.path.join(os.path.dirname(os.path.dirname(os.path.abspath(__file__))), "known", pid)
    for p in sorted(glob.glob(os.path.join(base, "*.json"))):
        wj = json.load(open(p))
        tup = lambda k: (k[0], k[1], [(o[0], tuple(o[1]), tuple(o[2])) for o in k[2]], tuple(k[3]))
        jobs.append((f"witness:{pid}/{os.path.basename(p)}", [tup(k) for k in wj["kernels"]]))
    for h in hists:
        jobs.append(("hist:" + "-".join(str(i) for i in h), [lib[i - 1] for i in h]))
    for name, ks in jobs:
        # all kernels of one PE share the data type and number of inputs (one accelerator template)
        if len({(k[0], k[1]) for k in ks}) != 1:
            continue
        try:
            gens = [generic_of(k) for k in ks]
            keep.append(gens)
            pes = [convert_generic_body_to_phs(g, "acc", PatternRewriter(g)) for g, _ in gens]
            g0, _ = generic_of(ks[0])
            abstract = convert_generic_body_to_phs(g0, "acc", PatternRewriter(g0))
            for j in range(1, len(ks)):
                gj, mj = generic_of(ks[j])
                keep.append(mj)
                append_to_abstract_graph(convert_generic_body_to_phs(gj, "acc", PatternRewriter(gj)), abstract)
        except Exception as e:
            rep.evaluations += 1
            rep.violation(name, f"merging raised {type(e).__name__}: {str(e)[:160]}", {"kernels": [kernel_text(k) for k in ks], "exception": traceback.format_exc(limit=6)})
            continue
        decoded = []
        for j, pe in enumerate(pes):
            try:
                sw = [int(x) for x in decode_abstract_graph(abstract, pe)]
                decoded.append({"ok": 1, "sw": sw})
            except Exception as e:
                decoded.append({"ok": 0, "sw": [], "err": f"{type(e).__name__}: {str(e)[:100]}"})
        try:
            true_sw = int(abstract.get_true_switches())
        except Exception as e:
            true_sw = -1
        # the accelerator built around the merged PE (snax_phs.py): declared switch registers and the values it configures per kernel
        accrec = {"built": 0, "nswitchfields": 0, "fieldsok": 0, "values": [[] for _ in ks]}
        if all(d["ok"] for d in decoded) and true_sw >= 0:
            try:
                from xdsl.dialects import arith
                from xdsl.ir.affine import AffineMap
                from snaxc.accelerators.snax_phs import SNAXPHSAccelerator
                from snaxc.phs.template_spec import TemplateSpec
                ident = AffineMap.from_callable(lambda d0: (d0,))
                acc = SNAXPHSAccelerator(abstract, TemplateSpec((ident,) * ks[0][0], (ident,), (4,)))
                sw_fields = [f for f in acc.fields if f.startswith("phs_switch_")]
                pos = [i for i, f in enumerate(acc.fields) if f.startswith("phs_switch_")]
                fields_ok = (sw_fields == [f"phs_switch_{i}" for i in range(len(sw_fields))] and acc.fields[-1] == "loop_bound_alu"
                             and pos == list(range(len(acc.streamer_setup_fields), len(acc.streamer_setup_fields) + len(sw_fields)))
                             and list(acc.fields[:len(acc.streamer_setup_fields)]) == list(acc.streamer_setup_fields))
                vals = []
                for kj in ks:
                    gj, mj = generic_of(kj)
                    keep.append(mj)
                    got = acc.get_switch_values(gj)
                    vals.append([int(o[0][0].value.value.data) if isinstance(o[0][0], arith.ConstantOp) else -99 for o in got])
                accrec = {"built": 1, "nswitchfields": len(sw_fields), "fieldsok": 1 if fields_ok else 0, "values": vals}
                if len(maps) < 60:
                    from checks_regfile import reg_map_case
                    maps.append(reg_map_case(f"phs:{name}", acc))
            except Exception as e:
                rep.violation(name + "|acc", f"SNAXPHSAccelerator raised {type(e).__name__}: {str(e)[:160]}",
                              {"kernels": [kernel_text(k) for k in ks], "exception": traceback.format_exc(limit=6)})
        cases.append({"kind": "pe", "name": name, "acc": accrec, "abstract": export_pe(abstract), "kernels": [kernel_record(k) for k in ks],
                      "decoded": [{"ok": d["ok"], "sw": d["sw"]} for d in decoded], "true_switches": true_sw,
                      "text": str(abstract), "ktexts": [kernel_text(k) for k in ks], "errs": [d.get("err", "") for d in decoded]})
    rep.rule = (f"TLC (HistGen.tla) enumerates every merge history of length <= {maxlen} over a per-run library of {nk} kernels (1-4 binary int/float ops, every library holding bodies of 1, 2, 3 and 4 operations, "
                "2-3 inputs, differing routing incl. swapped operands and re-used inputs); histories whose kernels share type and arity are replayed on "
                "the real convert_generic_body_to_phs / append_to_abstract_graph / decode_abstract_graph; TLC evaluates the exported merged graph under the "
                "decoded switch values on all data in -2..2 against the kernel body (PE.tla); non-trivial = history of length >= 2")
    CH = 1500
    for lo in range(0, len(cases), CH):
        chunk = cases[lo:lo + CH]
        r, verdicts = run_obj_batch(pid, chunk, tag=f"batch{lo}", coverage=(lo == 0))
        rep.add_tlc(r)
        for tid, v in verdicts.items():
            c = chunk[tid - 1]
            rep.evaluations += 1
            rep.traces += 1
            if len(c["kernels"]) >= 2:
                rep.nontrivial.add(c["name"])
            if len(rep.samples) < 2 and len(c["kernels"]) == 3:
                rep.samples.append({"history": c["name"], "kernels": c["ktexts"], "merged": c["text"], "decoded": c["decoded"]})
            if v != "ok":
                rep.violation(c["name"], f"clause {v} fails; decoded {c['decoded']} true_switches {c['true_switches']} errors {[e for e in c['errs'] if e]}",
                              {"kernels": c["ktexts"], "merged": c["text"], "decoded": c["decoded"], "clause": v})
    # register maps of the PHS accelerators built above: injective incl. the reserved streamer status registers (C04's map clause)
    if maps:
        r, verdicts = run_obj_batch(pid, maps, tag="phsmaps")
        rep.add_tlc(r)
        for tid, v in verdicts.items():
            rep.evaluations += 1
            if v != "ok":
                c = maps[tid - 1]
                rep.violation(c["name"], f"clause {v} fails for the PHS accelerator register map", {"names": c["names"], "addrs": c["addrs"]})
    rep.extra["phs_accelerators_built"] = sum(1 for c in cases if c["acc"]["built"])
    return rep.finish(known)
