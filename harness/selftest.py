"""Binding self-test: corrupt the *recorded artefacts* of the last clean run of a check (the batch files TLC consumed,
never the repository) in structure-preserving ways and require TLC to reject them.  Shows that the verdicts depend on the
content of what the real code produced and not only on its shape.

  pair batches (PairCheck.tla): the image of the pass OUTPUT (B) is corrupted
      swap-operands    two different operands of a side-effecting op are exchanged (copy direction, setup field values, ...)
      retarget-operand an operand of a side-effecting op is replaced by another value of the same type
      bump-const       an integer constant is incremented
      drop-effect      a side-effecting op without results and regions becomes a no-op
  object batches (ObjCheck.tla): one integer of what the real code reported is incremented

Some corruptions are semantically neutral (swapping the operands of a commutative op, bumping an unused constant), so the
self-test does not demand that every corruption is rejected; it demands rejections for every corruption kind that could be
applied at least MIN_TRIED times and reports the counts."""
from __future__ import annotations

import copy
import glob
import json
import os
import random

from common import WORK, MachineryError, run_tlc

MIN_TRIED = 6
SKIP_KEYS = {"name", "text", "kind", "k", "n", "src", "source", "after", "pipe", "canon_text"}


def _same_type_ids(img, vid):
    ty = img.get("ty", [])
    if vid < 1 or vid > len(ty):
        return []
    return [i + 1 for i, t in enumerate(ty) if t == ty[vid - 1] and i + 1 != vid]


def corrupt_image(img, rng):
    """Returns (kind, corrupted image) or None."""
    ops = img["ops"]
    cands = []
    for i, op in enumerate(ops):
        eff = not op.get("pure", False) and op["k"] not in ("for", "if", "while", "yield", "lyield", "ret", "cond", "const")
        a = op.get("a", [])
        if eff and len(a) >= 2 and a[0] != a[1]:
            cands.append(("swap-operands", i))
        if eff and a and any(_same_type_ids(img, x) for x in a):
            cands.append(("retarget-operand", i))
        if op["k"] == "const" and op.get("iv"):
            cands.append(("bump-const", i))
        if eff and not op.get("r") and op.get("end", 0) == 0 and op["k"] in ("copy", "eff", "barrier", "asm", "dealloc", "await", "call"):
            cands.append(("drop-effect", i))
    if not cands:
        return None
    kind, i = rng.choice(cands)
    new = copy.deepcopy(img)
    op = new["ops"][i]
    if kind == "swap-operands":
        op["a"][0], op["a"][1] = op["a"][1], op["a"][0]
    elif kind == "retarget-operand":
        js = [j for j, x in enumerate(op["a"]) if _same_type_ids(img, x)]
        j = rng.choice(js)
        op["a"][j] = rng.choice(_same_type_ids(img, op["a"][j]))
    elif kind == "bump-const":
        op["iv"][0] = op["iv"][0] + 1
    elif kind == "drop-effect":
        op["k"], op["pure"], op["a"] = "pure", True, []
    return kind, new


def _int_leaves(x, path=()):
    if isinstance(x, bool):
        return
    if isinstance(x, int):
        yield path
    elif isinstance(x, list):
        for i, y in enumerate(x):
            yield from _int_leaves(y, path + (i,))
    elif isinstance(x, dict):
        for k, y in x.items():
            if k not in SKIP_KEYS:
                yield from _int_leaves(y, path + (k,))


def corrupt_object(case, rng):
    leaves = list(_int_leaves(case))
    if not leaves:
        return None
    p = rng.choice(leaves)
    new = copy.deepcopy(case)
    x = new
    for k in p[:-1]:
        x = x[k]
    x[p[-1]] = x[p[-1]] + 1
    return "bump-int:" + ".".join(str(k) for k in p if not isinstance(k, int)), new


def _verdicts_pair(path, n_cases):
    r = run_tlc("PairCheck", "PairCheck.cfg", env={"BATCH": path}, workers=16, timeout=1500)
    per = {}
    for v in r.verdicts():
        per.setdefault(v[0], []).append(v[2])
    return r, per


def _verdicts_obj(path):
    r = run_tlc("ObjCheck", "ObjCheck.cfg", env={"BATCH": path}, workers=16, timeout=1500)
    return r, {v[0]: v[2] for v in r.verdicts()}


def run(pid, seed=0, max_cases=60):
    rng = random.Random(seed * 7919 + 13)
    d = os.path.join(WORK, pid)
    files = sorted(f for f in glob.glob(os.path.join(d, "*.json")) if not os.path.basename(f).startswith("selftest"))
    if not files:
        raise MachineryError(f"selftest {pid}: no recorded batch under {d} (run the check first)")
    tried, rejected, examples = {}, {}, []
    for f in files:
        try:
            b = json.load(open(f))
        except Exception:
            continue
        if not isinstance(b, dict) or not isinstance(b.get("cases"), list):
            continue      # not a batch TLC judged (e.g. start states of a simulation)
        cases = b.get("cases", [])
        if not cases:
            continue
        is_pair = "contract" in b
        idx = list(range(len(cases)))
        rng.shuffle(idx)
        chosen, kinds = [], []
        for i in idx:
            if len(chosen) >= max_cases:
                break
            c = cases[i]
            res = corrupt_image(c["B"], rng) if is_pair else corrupt_object(c, rng)
            if res is None:
                continue
            kind, new = res
            nc = dict(c)
            if is_pair:
                nc["B"] = new
            else:
                nc = new
            chosen.append(nc)
            kinds.append(kind if is_pair else "bump-int")
        if not chosen:
            continue
        out = os.path.join(d, "selftest_" + os.path.basename(f))
        nb = dict(b)
        nb["cases"] = chosen
        json.dump(nb, open(out, "w"))
        if is_pair:
            r, per = _verdicts_pair(out, len(chosen))
            crashed = bool(r.error) and not per
            for t, kind in enumerate(kinds, start=1):
                vs = per.get(t)
                tried[kind] = tried.get(kind, 0) + 1
                # a corrupted artefact on which the machine cannot even finish (TLC evaluation error) is rejected as well
                rej = crashed or vs is None or any(v != "ok" and not v.startswith("skipA") for v in vs)
                if rej:
                    rejected[kind] = rejected.get(kind, 0) + 1
                    if len(examples) < 4 and vs:
                        examples.append({"batch": os.path.basename(f), "case": chosen[t - 1].get("name"), "corruption": kind,
                                         "clause": next(v for v in vs if v != "ok")})
        else:
            r, per = _verdicts_obj(out)
            if r.error and len(per) < len(chosen):
                # a malformed object stopped TLC: judge the corrupted objects one by one (fewer of them)
                per = {}
                chosen, kinds = chosen[:15], kinds[:15]
                for t, c in enumerate(chosen, start=1):
                    nb["cases"] = [c]
                    json.dump(nb, open(out, "w"))
                    r1, p1 = _verdicts_obj(out)
                    per[t] = p1.get(1, "Malformed")
            for t, kind in enumerate(kinds, start=1):
                v = per.get(t, "Malformed")
                tried[kind] = tried.get(kind, 0) + 1
                if v != "ok":
                    rejected[kind] = rejected.get(kind, 0) + 1
                    if len(examples) < 4:
                        examples.append({"batch": os.path.basename(f), "case": chosen[t - 1].get("name"), "corruption": kind, "clause": v})
        os.remove(out)
    weak = [k for k, n in tried.items() if n >= MIN_TRIED and rejected.get(k, 0) == 0]
    summary = {"tried": tried, "rejected": rejected, "examples": examples, "kinds_never_rejected": weak}
    return summary
