"""C18: kernel recognition / expansion preserve the scalar function; dispatch only to declared kernels+types."""
from __future__ import annotations

import glob
import itertools
import os
import random
import traceback

import repo  # noqa: F401
from common import KnownFindings, MachineryError, Report, text_hash
from export_ir import export_body
from xdsl.dialects import linalg
from objs import run_obj_batch
from pairs import oracle_at, run_pair_batch

RW = {1: 1, 8: 3, 16: 4, 32: 6, 64: 8}     # reduced widths (TLC integers are 32-bit)


def wmap(w):
    return RW.get(w, w)


def dom(w):
    r = wmap(w)
    lo, hi = -(2 ** (r - 1)), 2 ** (r - 1) - 1
    if r <= 3:
        return list(range(lo, hi + 1))
    return sorted({lo, -1, 0, 1, 2, hi})


def domains(widths, cap=320):
    ds = [dom(w) for w in widths]
    def prod():
        p = 1
        for d in ds:
            p *= len(d)
        return p
    while prod() > cap:
        j = max(range(len(ds)), key=lambda q: len(ds[q]))
        d = ds[j]
        if len(d) <= 3:
            break
        # keep extremes, -1, 0, 1
        keep = sorted({d[0], d[-1], -1, 0, 1} & set(d))
        ds[j] = keep if len(keep) < len(d) else d[:-1]
    return ds


def finish_image(img):
    img.update({"sacc": [""] * len(img["ty"]), "claims": [], "thr": 1, "logsetup": 0, "dma": 0, "memtop": 0, "srctop": 0,
                "allocsite": 0, "track": 0})
    return img


IDm = "affine_map<(d0) -> (d0)>"


def generic_text(arg_widths, body_lines, yield_val, extra_attr=""):
    """linalg.generic with scalar body; arg_widths: list of widths (inputs..., output)."""
    n = len(arg_widths)
    ins = ", ".join(f"%m{i}" for i in range(n - 1))
    ins_t = ", ".join(f"memref<8xi{w}>" for w in arg_widths[:-1])
    fargs = ", ".join(f"%m{i} : memref<8xi{w}>" for i, w in enumerate(arg_widths))
    bargs = ", ".join(f"%b{i} : i{w}" for i, w in enumerate(arg_widths))
    maps = ", ".join([IDm] * n)
    body = "\n".join("      " + l for l in body_lines)
    return f"""builtin.module {{
  func.func @f({fargs}) {{
    linalg.generic {{indexing_maps = [{maps}], iterator_types = ["parallel"]}} ins({ins} : {ins_t}) outs(%m{n - 1} : memref<8xi{arg_widths[-1]}>) {extra_attr}{{
    ^bb0({bargs}):
{body}
      linalg.yield {yield_val} : i{arg_widths[-1]}
    }}
    func.return
  }}
}}
"""


def rand_body(rng, shape=None):
    """random straight-line body over addi/muli/subi/extsi; shape: optional op-name sequence to follow (wiring random)."""
    nargs = rng.choice([3, 3, 3, 5]) if shape is None else (5 if shape and shape.count("subi") == 2 else 3)
    outw = rng.choice([8, 16, 32, 64])
    widths = [rng.choice([w for w in (8, 16, 32, 64) if w <= outw]) for _ in range(nargs - 1)] + [outw]
    if rng.random() < 0.5:
        widths = [widths[0]] * (nargs - 1) + [outw]
    if shape is not None and "extsi" not in shape:
        widths = [outw] * nargs          # nothing widens: all operands already have the result width
    vals = [(f"%b{i}", w) for i, w in enumerate(widths)]
    lines = []
    ops = shape or [rng.choice(["addi", "muli", "subi", "extsi"]) for _ in range(rng.randint(1, 4))]
    k = 0
    for o in ops:
        k += 1
        if o == "extsi":
            cands = [(v, w) for v, w in vals if w < outw]
            if not cands:
                continue
            v, w = rng.choice(cands)
            tw = rng.choice([x for x in (16, 32, 64) if w < x <= outw])
            lines.append(f"%v{k} = arith.extsi {v} : i{w} to i{tw}")
            vals.append((f"%v{k}", tw))
        else:
            w = rng.choice(sorted({w for _, w in vals}))
            same = [v for v, ww in vals if ww == w]
            a, b = rng.choice(same), rng.choice(same)
            lines.append(f"%v{k} = arith.{o} {a}, {b} : i{w}")
            vals.append((f"%v{k}", w))
    outs = [v for v, w in vals if w == outw and v.startswith("%v")]
    if not outs:
        return None
    # prefer the last computed value of the right width
    return widths, lines, outs[-1]


KERNEL_SHAPES = [["muli"], ["addi"], ["muli", "addi"], ["extsi", "extsi", "muli", "addi"], ["extsi", "subi", "extsi", "subi", "muli", "addi"],
                 ["subi", "subi", "muli", "addi"]]


def kernel_template(kind, wn, ww):
    if kind == "mul":
        return [ww, ww, ww], [("muli", "%b0", "%b1", ww)]
    if kind == "add":
        return [ww, ww, ww], [("addi", "%b0", "%b1", ww)]
    if kind == "mac":
        return [ww, ww, ww], [("muli", "%b0", "%b1", ww), ("addi", "%b2", "%v1", ww)]
    if kind == "mac_ext":
        return [wn, wn, ww], [("extsi", "%b0", None, ww), ("extsi", "%b1", None, ww), ("muli", "%v1", "%v2", ww), ("addi", "%b2", "%v3", ww)]
    if kind == "qmac_ext":
        return [wn, wn, ww, ww, ww], [("extsi", "%b0", None, ww), ("subi", "%v1", "%b2", ww), ("extsi", "%b1", None, ww), ("subi", "%v3", "%b3", ww),
                                      ("muli", "%v2", "%v4", ww), ("addi", "%b4", "%v5", ww)]
    return [ww] * 5, [("subi", "%b0", "%b2", ww), ("subi", "%b1", "%b3", ww), ("muli", "%v1", "%v2", ww), ("addi", "%b4", "%v3", ww)]


CANON_OF = {}       # index of a single re-pointing in the list nearmiss_bodies returns -> the canonical body it was derived from


def nearmiss_bodies(rng, n_double):
    """the canonical wiring of every kernel (also with operands that already have the result width) with ONE operand slot re-pointed at
    another value of the same width - all of them - and n_double random double re-pointings: bodies that contain the same kinds of
    operations as a kernel but wire them differently"""
    out = []

    def render(widths, ops, wn):
        lines = []
        for j, (o, a, b, w) in enumerate(ops):
            lines.append(f"%v{j + 1} = arith.extsi {a} : i{wn} to i{w}" if o == "extsi" else f"%v{j + 1} = arith.{o} {a}, {b} : i{w}")
        return widths, lines, f"%v{len(ops)}"

    def substitutions(widths, ops, wn):
        for j, op in enumerate(ops):
            for slot in ((1,) if op[0] == "extsi" else (1, 2)):
                srcw = wn if op[0] == "extsi" else op[3]
                for cnd in [f"%b{i}" for i, w in enumerate(widths) if w == srcw] + [f"%v{q + 1}" for q in range(j) if ops[q][3] == srcw]:
                    if cnd != op[slot]:
                        yield j, slot, cnd
    combos = [(8, 32), (8, 16), (16, 64), (32, 64)]
    for q, kind in enumerate(["mul", "add", "mac", "mac_ext", "qmac_ext", "qmac_same"]):
        wn, ww = combos[q % len(combos)]
        if kind in ("mul", "add", "mac", "qmac_same"):
            wn = ww
        widths, tmpl = kernel_template(kind, wn, ww)
        for (j, slot, cnd) in substitutions(widths, tmpl, wn):
            ops = [list(t) for t in tmpl]
            ops[j][slot] = cnd
            out.append(render(widths, ops, wn))
            CANON_OF[len(out) - 1] = render(widths, [list(t) for t in tmpl], wn)
    for _ in range(n_double):
        kind = rng.choice(["mac", "mac_ext", "qmac_ext", "qmac_same"])
        wn, ww = rng.choice(combos)
        if kind in ("mac", "qmac_same"):
            wn = ww
        widths, tmpl = kernel_template(kind, wn, ww)
        ops = [list(t) for t in tmpl]
        for _k in range(2):
            subs = list(substitutions(widths, ops, wn))
            j, slot, cnd = rng.choice(subs)
            ops[j][slot] = cnd
        out.append(render(widths, ops, wn))
    return out


def canonical_bodies():
    out = []
    for w in (8, 32, 64):
        out.append(([w, w, w], [f"%v1 = arith.muli %b0, %b1 : i{w}"], "%v1"))
        out.append(([w, w, w], [f"%v1 = arith.addi %b0, %b1 : i{w}"], "%v1"))
        out.append(([w, w, w], [f"%v1 = arith.muli %b0, %b1 : i{w}", f"%v2 = arith.addi %b2, %v1 : i{w}"], "%v2"))
    out.append(([8, 8, 32], ["%v1 = arith.extsi %b0 : i8 to i32", "%v2 = arith.extsi %b1 : i8 to i32", "%v3 = arith.muli %v1, %v2 : i32",
                             "%v4 = arith.addi %b2, %v3 : i32"], "%v4"))
    out.append(([8, 8, 32, 32, 32], ["%v1 = arith.extsi %b0 : i8 to i32", "%v2 = arith.subi %v1, %b2 : i32", "%v3 = arith.extsi %b1 : i8 to i32",
                                     "%v4 = arith.subi %v3, %b3 : i32", "%v5 = arith.muli %v2, %v4 : i32", "%v6 = arith.addi %b4, %v5 : i32"], "%v6"))
    return out


def tlc_bodies(pid, na, nk, maxops):
    """every wiring of <= maxops binary ops over na arguments, enumerated by TLC (spec/BodyGen.tla)"""
    import re
    from common import SPEC, run_tlc
    cfg = os.path.join(SPEC, f".BodyGen_{pid}.cfg")
    with open(cfg, "w") as f:
        f.write(f"SPECIFICATION Spec\nCONSTANTS\n  NA = {na}\n  NK = {nk}\n  MaxOps = {maxops}\nINVARIANT Emit\nCHECK_DEADLOCK FALSE\n")
    try:
        r = run_tlc("BodyGen", os.path.basename(cfg), workers=4, timeout=900)
    finally:
        os.remove(cfg)
    out = set()
    for mm in re.finditer(r'<<\s*"BODY",\s*<<([^>]*)>>\s*>>', r.out):
        xs = [int(x) for x in re.findall(r"-?\d+", mm.group(1))]
        out.add(tuple(xs))
    if r.error or not out:
        raise MachineryError(f"BodyGen produced nothing: {r.error}\n{r.out[-1000:]}")
    return r, sorted(out)


def render_body(flat, na, w):
    kinds = {1: "muli", 2: "addi", 3: "subi"}
    ref = lambda k: f"%b{k - 1}" if k <= na else f"%v{k - na}"
    lines = [f"%v{i + 1} = arith.{kinds[flat[3 * i]]} {ref(flat[3 * i + 1])}, {ref(flat[3 * i + 2])} : i{w}" for i in range(len(flat) // 3)]
    return [w] * na, lines, f"%v{len(flat) // 3}"


def body_block(mod):
    from xdsl.dialects import linalg
    g = [o for o in mod.walk() if isinstance(o, linalg.GenericOp)]
    return g[0] if g else None


def run(pid: str, tier: str, seed: int, selftest=False, replay=None) -> int:
    rep = Report(pid, tier, seed)
    known = KnownFindings()
    rng = random.Random(seed)
    quick = tier == "quick"
    bodies = [(f"canon:{i}", b) for i, b in enumerate(canonical_bodies())]
    base = os.path.join(os.path.dirname(os.path.dirname(os.path.abspath(__file__))), "known", pid)
    n = 300 if quick else 12000
    for k in range(n):
        b = rand_body(rng, rng.choice(KERNEL_SHAPES) if rng.random() < 0.6 else None)
        if b is not None:
            bodies.append((f"gen:{seed}:{k}", b))
    for k, b in enumerate(nearmiss_bodies(rng, 60 if quick else 3000)):
        bodies.append((f"nearmiss:{seed}:{k}", b))
    # exhaustive small scope: every wiring of <= 2 (thorough: 3, sampled) mul/add/sub operations over three arguments of one width
    rg, flats = tlc_bodies(pid, 3, 3, 2 if quick else 3)
    rep.add_tlc(rg)
    if not quick:
        big = [f for f in flats if len(f) == 9]
        rng.shuffle(big)
        flats = [f for f in flats if len(f) < 9] + big[:6000]
    rep.extra["small_scope_bodies"] = len(flats)
    for q, fl in enumerate(flats):
        bodies.append(("small:" + "-".join(str(x) for x in fl), render_body(fl, 3, (8, 32, 64)[q % 3])))
    # bodies that already contain kernel ops next to ordinary arithmetic (a kernel op fed by arith ops, followed by one, two kernel ops):
    # only convert-kernel-to-linalg runs on these
    kbodies = []
    for k in range(80 if quick else 1500):
        w = rng.choice([8, 32, 64])
        vals = ["%b0", "%b1", "%b2"]
        lines = []
        shape = rng.choice(["ak", "aak", "ka", "kk", "aka", "k"])
        for j, c in enumerate(shape):
            a, b = rng.choice(vals), rng.choice(vals)
            if c == "a":
                lines.append(f"%v{j + 1} = arith.{rng.choice(['addi', 'muli', 'subi'])} {a}, {b} : i{w}")
            else:
                if lines and rng.random() < 0.8:
                    a = f"%v{j}"          # fed by the previous op
                    if rng.random() < 0.5:
                        a, b = b, a
                lines.append(f"%v{j + 1} = kernel.{rng.choice(['add', 'mul', 'mac'])} {a}, {b} : i{w}, i{w} -> i{w}")
            vals.append(f"%v{j + 1}")
        kbodies.append((f"kmix:{seed}:{k}", ([w, w, w], lines, f"%v{len(shape)}")))
    cases = []
    recognised = 0
    for name, (widths, lines, yv) in bodies + kbodies:
        text = generic_text(widths, lines, yv)
        try:
            src = repo.parse(text)
            src.verify()
        except Exception as e:
            raise MachineryError(f"generator produced invalid body {name}: {e}\n{text}")
        for pipe in (("convert-kernel-to-linalg",) if name.startswith("kmix:") else ("convert-linalg-to-kernel", "convert-linalg-to-kernel,convert-kernel-to-linalg")):
            m = src.clone()
            try:
                repo.run_pipeline(m, pipe)
            except Exception as e:
                rep.evaluations += 1
                rep.violation(f"{name}|{pipe}", f"{pipe} raised {type(e).__name__}: {str(e)[:200]}", {"source": text, "exception": traceback.format_exc(limit=6)})
                continue
            ga, gb = body_block(src), body_block(m)
            if gb is None:
                rep.violation(f"{name}|{pipe}", "linalg.generic disappeared", {"source": text, "after": str(m)})
                continue
            if pipe == "convert-linalg-to-kernel" and "kernel." in str(gb):
                recognised += 1
            ia, ib = finish_image(export_body(ga.body.block, wmap)), finish_image(export_body(gb.body.block, wmap))
            cases.append({"name": f"{name}|{pipe}", "A": ia, "B": ib, "argdom": domains(widths, 125 if name.startswith("small:") else 320), "opqdom": [[0]],
                          "text": text, "after": str(gb), "pipe": pipe})
    # history inside one pass run: a module whose first layer is the canonical body of a kernel and whose second layer is a re-pointed one
    # with the same operations and types (what the pass remembers from the first must not decide the second)
    from xdsl.dialects import linalg as _lg
    nm = nearmiss_bodies(random.Random(seed), 0)
    for q, (widths, lines, yv) in enumerate(nm):
        if q not in CANON_OF or (quick and q % 2):
            continue
        cw, cl, cy = CANON_OF[q]
        t0, t1 = generic_text(cw, cl, cy), generic_text(widths, lines, yv)
        text = t0[:t0.rindex("}")].rstrip() + "\n  " + t1[t1.index("func.func"):t1.rindex("}")].replace("@f(", "@g(", 1).rstrip() + "\n}\n"
        name = f"layers:{seed}:{q}"
        try:
            src = repo.parse(text)
            src.verify()
        except Exception as e:
            raise MachineryError(f"generator produced invalid two-layer module {name}: {e}\n{text}")
        m = src.clone()
        try:
            repo.run_pipeline(m, "convert-linalg-to-kernel")
        except Exception as e:
            rep.evaluations += 1
            rep.violation(name, f"convert-linalg-to-kernel raised {type(e).__name__}: {str(e)[:200]}", {"source": text})
            continue
        ga = [o for o in src.walk() if isinstance(o, _lg.GenericOp)]
        gb = [o for o in m.walk() if isinstance(o, _lg.GenericOp)]
        if len(ga) != 2 or len(gb) != 2:
            rep.violation(name, "a layer disappeared", {"source": text, "after": str(m)[:3000]})
            continue
        for li in (0, 1):
            ia, ib = finish_image(export_body(ga[li].body.block, wmap)), finish_image(export_body(gb[li].body.block, wmap))
            ws = cw if li == 0 else widths
            cases.append({"name": f"{name}#layer{li}|convert-linalg-to-kernel", "A": ia, "B": ib, "argdom": domains(ws, 125), "opqdom": [[0]],
                          "text": text, "after": str(gb[li]), "pipe": "convert-linalg-to-kernel"})
    rep.extra["bodies_recognised_as_kernels"] = recognised
    # rescale expansion at true widths with small values (no overflow anywhere)
    rcases = []
    for k in range(30 if quick else 400):
        sh = rng.choice([0, 1, 4, 7, 9])
        mult = rng.choice([1, 2, 3, 5]) * (2 ** sh) if rng.random() < 0.7 else rng.choice([1, 3, 100, 1234])
        zin, zout = rng.choice([0, 3, -7, 23]), rng.choice([0, -5, 20, -23])
        lo, hi = rng.choice([(-128, 127), (-128, 127), (-50, 100), (0, 127)])
        text = f"""builtin.module {{
  func.func @f(%m0 : memref<8xi32>, %m1 : memref<8xi8>) {{
    linalg.generic {{indexing_maps = [{IDm}, {IDm}], iterator_types = ["parallel"]}} ins(%m0 : memref<8xi32>) outs(%m1 : memref<8xi8>) {{
    ^bb0(%b0 : i32, %b1 : i8):
      %v = kernel.rescale %b0 {{input_zp = {zin} : i32, output_zp = {zout} : i32, multiplier = array<i32: {mult}>, shift = array<i8: {sh}>, min_int = {lo} : i32, max_int = {hi} : i32, double_round = false}} : (i32) -> i8
      linalg.yield %v : i8
    }}
    func.return
  }}
}}
"""
        try:
            src = repo.parse(text)
            src.verify()
            m = src.clone()
            repo.run_pipeline(m, "convert-kernel-to-linalg")
        except Exception as e:
            rep.violation(f"rescale:{seed}:{k}", f"rescale expansion raised {type(e).__name__}: {str(e)[:200]}", {"source": text})
            continue
        ga, gb = body_block(src), body_block(m)
        ia, ib = finish_image(export_body(ga.body.block)), finish_image(export_body(gb.body.block))
        xs = sorted({-300, -129, -128, -50, -8, -1, 0, 1, 5, 49, 100, 127, 128, 300} | {rng.randint(-300, 300) for _ in range(6)})
        rcases.append({"name": f"rescale:{seed}:{k}", "A": ia, "B": ib, "argdom": [xs, [0]], "opqdom": [[0]], "text": text, "after": str(gb),
                       "pipe": "convert-kernel-to-linalg"})
    cases += rcases
    # tosa.rescale (+ tosa.clamp) -> linalg.generic { kernel.rescale } (convert-tosa-to-kernel): the kernel must be the scalar function of the
    # tosa ops - zero points, multiplier, shift and the clamp interval (the clamp's, or the range of the i8 result without a clamp)
    tcases, tflags = [], []
    for k in range(40 if quick else 500):
        sh = rng.choice([0, 1, 4, 7, 9])
        mult = rng.choice([1, 2, 3, 5]) * (2 ** sh) if rng.random() < 0.7 else rng.choice([1, 3, 100, 1234])
        zin, zout = rng.choice([0, 3, -7, 23]), rng.choice([0, -5, 20, -23])
        clamp = rng.random() < 0.7
        out = "i8" if (not clamp or rng.random() < 0.7) else "i32"
        lo, hi = rng.choice([(-128, 127), (-100, 127), (-50, 100), (0, 127), (-128, 0)]) if clamp else (-128, 127)
        dr = rng.random() < 0.3
        shp = rng.choice(["8", "?x8", "2x4"])
        ty_in, ty_out = f"tensor<{shp}xi32>", f"tensor<{shp}x{out}>"
        second_use = rng.random() < 0.15      # the rescale result has another user: the pair is not one kernel
        lines = [f'%izp = "tosa.const"() <{{values = dense<{zin}> : tensor<1xi32>}}> : () -> tensor<1xi32>',
                 f'%ozp = "tosa.const"() <{{values = dense<{zout}> : tensor<1xi32>}}> : () -> tensor<1xi32>',
                 f'%mul = "tosa.const"() <{{values = dense<{mult}> : tensor<1xi32>}}> : () -> tensor<1xi32>',
                 f'%shf = "tosa.const"() <{{values = dense<{sh}> : tensor<1xi32>}}> : () -> tensor<1xi32>',
                 f'%r = tosa.rescale %t, %mul, %shf, %izp, %ozp {{rounding_mode = {"DOUBLE_ROUND" if dr else "SINGLE_ROUND"}, per_channel = false, scale32 = true, '
                 f'input_unsigned = false, output_unsigned = false}} : ({ty_in}, tensor<1xi32>, tensor<1xi32>, tensor<1xi32>, tensor<1xi32>) -> {ty_out}']
        res = "%r"
        if clamp:
            lines.append(f"%c = tosa.clamp %r {{max_val = {hi} : {out}, min_val = {lo} : {out}}} : ({ty_out}) -> {ty_out}")
            res = "%c"
        if second_use:
            lines.append(f'"test.op"(%r) : ({ty_out}) -> ()')
        text = ("builtin.module {\n  func.func @f(%t : " + ty_in + ") -> " + ty_out + " {\n    " + "\n    ".join(lines)
                + f"\n    func.return {res} : {ty_out}\n  }}\n}}\n")
        name = f"tosa:{seed}:{k}"
        try:
            src = repo.parse(text)
            src.verify()
        except Exception as e:
            raise MachineryError(f"generator produced invalid tosa input: {e}\n{text}")
        m = src.clone()
        try:
            repo.run_pipeline(m, "convert-tosa-to-kernel")
            m.verify()
        except Exception as e:
            rep.violation(name, f"convert-tosa-to-kernel raised {type(e).__name__}: {str(e)[:200]}", {"source": text})
            continue
        gens = [o for o in m.walk() if isinstance(o, linalg.GenericOp)]
        left = [o.name for o in m.walk() if o.name in ("tosa.rescale", "tosa.clamp")]
        if second_use and clamp:
            if gens or len(left) != 2:
                rep.violation(name, "a rescale whose result has a second user was folded into a kernel", {"source": text, "after": str(m)[:2500]})
            continue
        if not gens:
            rep.refused += 1      # left as it is
            continue
        if len(gens) != 1 or (left and not second_use):
            rep.violation(name, "the rescale/clamp pair was not replaced by exactly one linalg.generic", {"source": text, "after": str(m)[:2500]})
            continue
        # the scalar meaning of the tosa ops, written as the kernel it denotes (reference body, exported like any other body)
        ref = f"""builtin.module {{
  func.func @f(%m0 : memref<8xi32>, %m1 : memref<8x{out}>) {{
    linalg.generic {{indexing_maps = [{IDm}, {IDm}], iterator_types = ["parallel"]}} ins(%m0 : memref<8xi32>) outs(%m1 : memref<8x{out}>) {{
    ^bb0(%b0 : i32, %b1 : {out}):
      %v = kernel.rescale %b0 {{input_zp = {zin} : i32, output_zp = {zout} : i32, multiplier = array<i32: {mult}>, shift = array<i8: {sh}>, min_int = {lo} : i32, max_int = {hi} : i32, double_round = {"true" if dr else "false"}}} : (i32) -> {out}
      linalg.yield %v : {out}
    }}
    func.return
  }}
}}
"""
        ga = body_block(repo.parse(ref))
        gb = gens[0]
        ia, ib = finish_image(export_body(ga.body.block)), finish_image(export_body(gb.body.block))
        xs = sorted({-300, -129, -128, -50, -8, -1, 0, 1, 5, 49, 100, 127, 128, 300} | {rng.randint(-300, 300) for _ in range(6)})
        tcases.append({"name": name, "A": ia, "B": ib, "argdom": [xs, [0]], "opqdom": [[0]], "text": text, "after": str(gb), "pipe": "convert-tosa-to-kernel"})
        kop = [o for o in gb.body.block.ops if o.name == "kernel.rescale"]
        tflags.append({"kind": "eq", "clause": "RoundingModeKept", "name": name + "|rounding", "x": [int(bool(o.double_round.value.data)) for o in kop], "y": [int(dr)], "text": text})
    cases += tcases
    rep.extra["tosa_rescales_converted"] = len(tcases)
    if tflags:
        from objs import run_obj_batch
        r, verdicts = run_obj_batch(pid, tflags, tag="tosaflags")
        rep.add_tlc(r)
        for tid, v in verdicts.items():
            rep.evaluations += 1
            if v != "ok":
                c = tflags[tid - 1]
                rep.violation(c["name"], f"clause {v} fails: kernel.rescale double_round {c['x']} for a tosa.rescale with {c['y']}", {"source": c["text"], "clause": v})
    rep.rule = (f"canonical kernel bodies + {n} generated linalg bodies over addi/muli/subi/extsi (random wirings, 60% following a kernel's op-type "
                "sequence; widths i8..i64) through the real convert-linalg-to-kernel and back through convert-kernel-to-linalg; TLC evaluates the body "
                "before/after on IRMachine with exact two's complement at reduced widths (i8->3, i16->4, i32->6, i64->8 bits) for all/extreme inputs; "
                "rescale expansion at true widths on small values; dispatch-kernels vs declared supported kernels; non-trivial = body changed by the pass")
    CH = 400
    for lo_ in range(0, len(cases), CH):
        chunk = cases[lo_:lo_ + CH]
        r, per = run_pair_batch(pid, "scalar", chunk, tag=f"batch{lo_}", coverage=(lo_ == 0))
        rep.add_tlc(r)
        for tid, vs in per.items():
            c = chunk[tid - 1]
            rep.evaluations += len(vs)
            if all(v[1].startswith("skipA") for v in vs):
                rep.skipped += 1
                rep.extra.setdefault("skip_reasons", {})
                rep.extra["skip_reasons"][vs[0][1]] = rep.extra["skip_reasons"].get(vs[0][1], 0) + 1
                continue
            rep.traces += 1
            if "kernel." in c["after"] or c["name"].startswith("rescale"):
                rep.nontrivial.add(text_hash(c["text"] + c["pipe"]))
            if len(rep.samples) < 3 and "kernel." in c["after"]:
                rep.samples.append({"case": c["name"], "source": c["text"], "after": c["after"]})
            bad = [v for v in vs if v[1] != "ok" and not v[1].startswith("skipA")]
            if bad:
                oi, verdict, _, _ = sorted(bad)[0]
                rep.violation(c["name"].split("|")[0] if c["name"].startswith("witness") else c["name"],
                              f"{c['pipe']}: clause {verdict} fails for inputs {oracle_at(c, oi)['args']} ({len(bad)}/{len(vs)} inputs)",
                              {"source": c["text"], "after": c["after"], "oracle": oracle_at(c, oi), "clause": verdict})
    # ---- dispatch: library_call only for a kernel the accelerator declares with these operand types
    dcases = []
    ctx = repo.opt_main().ctx
    for acc_name in ("snax_alu", "snax_gemmx"):
        acc = ctx.get_acc(acc_name)
        declared = [[sk.kernel_type.name] + [str(t) for t in sk.operand_types] for sk in acc.supported_kernels]
        for kname, nin in (("kernel.add", 2), ("kernel.mul", 2), ("kernel.mac", 2)):
            for ws in itertools.product((8, 32, 64), repeat=2):
                w_in, w_out = ws
                text = generic_text([w_in] * nin + [w_out], [f"%v1 = {kname} %b0, %b1 : i{w_in}, i{w_in} -> i{w_out}"], "%v1")
                try:
                    m = repo.parse(text)
                    repo.run_pipeline(m, f"insert-accfg-op{{accelerator={acc_name}}},dispatch-kernels")
                except Exception as e:
                    rep.violation(f"dispatch:{acc_name}:{kname}:{ws}", f"dispatch-kernels raised {type(e).__name__}: {str(e)[:150]}", {"source": text})
                    continue
                g = body_block(m)
                lib = g.library_call.data if g.library_call else ""
                sig = [kname] + [f"i{w_in}"] * nin + [f"i{w_out}"]
                dcases.append({"kind": "dispatchdecl", "name": f"dispatch:{acc_name}:{kname}:i{w_in}->i{w_out}", "declared": declared, "sig": sig,
                               "dispatched": 1 if lib.startswith(acc_name) else 0, "text": text})
    # modules with several layers (one pass run sees all of them): both accelerators registered, kernels of the same kind and input
    # types with different result types next to each other
    from xdsl.dialects import linalg as _linalg
    decl = {a: [[sk.kernel_type.name] + [str(t) for t in sk.operand_types] for sk in ctx.get_acc(a).supported_kernels] for a in ("snax_alu", "snax_gemmx")}
    for k in range(40 if quick else 600):
        layers = []
        base = (rng.choice(["kernel.add", "kernel.mul", "kernel.mac"]), rng.choice([8, 64]))
        for _ in range(rng.choice([2, 3, 4])):
            kname, w_in = base if rng.random() < 0.7 else (rng.choice(["kernel.add", "kernel.mul", "kernel.mac"]), rng.choice([8, 32, 64]))
            layers.append((kname, w_in, rng.choice([8, 16, 32, 64])))
        funcs = []
        for j, (kname, w_in, w_out) in enumerate(layers):
            t = generic_text([w_in, w_in, w_out], [f"%v1 = {kname} %b0, %b1 : i{w_in}, i{w_in} -> i{w_out}"], "%v1")
            funcs.append(t[t.index("func.func"):t.rindex("}")].replace("@f(", f"@f{j}("))
        text = "builtin.module {\n  " + "\n  ".join(funcs) + "}\n"
        try:
            m = repo.parse(text)
            m.verify()
            repo.run_pipeline(m, "insert-accfg-op{accelerator=snax_alu},insert-accfg-op{accelerator=snax_gemmx},dispatch-kernels")
        except Exception as e:
            rep.violation(f"dispatch:layers:{seed}:{k}", f"dispatch-kernels raised {type(e).__name__}: {str(e)[:150]}", {"source": text})
            continue
        gens = [o for o in m.walk() if isinstance(o, _linalg.GenericOp)]
        if len(gens) != len(layers):
            raise MachineryError("layer count changed")
        for j, (g, (kname, w_in, w_out)) in enumerate(zip(gens, layers)):
            lib = g.library_call.data if g.library_call else ""
            accn = next((a for a in decl if lib.startswith(a)), None)
            dcases.append({"kind": "dispatchdecl", "name": f"dispatch:layers:{seed}:{k}#{j}:{kname}:i{w_in}->i{w_out}", "declared": decl[accn] if accn else [["none"]],
                           "sig": [kname, f"i{w_in}", f"i{w_in}", f"i{w_out}"], "dispatched": 1 if accn else 0, "text": text})
    if dcases:
        r, verdicts = run_obj_batch(pid, dcases, tag="dispatch")
        rep.add_tlc(r)
        for tid, v in verdicts.items():
            c = dcases[tid - 1]
            rep.evaluations += 1
            rep.traces += 1
            if v != "ok":
                rep.violation(c["name"], f"clause {v} fails: kernel {c['sig']} dispatched={c['dispatched']} but the accelerator declares {c['declared']}",
                              {"source": c["text"], "clause": v})
    return rep.finish(known)
